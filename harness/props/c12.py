"""C12 — validator algebra: generated code, is_valid and boolean meaning coincide.  See DESIGN.md 5/C12.

proof:          coq/theories/Props/C12.v (Core/GenProofs.v vcode_correct / ok_annot)
translator tie: the beartype.vale snippets and CODE_PEP593_* templates regenerated into Gen/Templates.v
correspondence: random validator expressions (depth <= 5 / 8) x metahints x objects: validator.is_valid(obj),
                is_bearable on Annotated[T, V...] at the root, inside list[...] and inside dict[str, ...],
                the validator named by the violation message and its reported verdict, all against the
                model's vmean / chk; plus the shared stream (which contains Annotated hints at any depth)
"""
import json
import os

from harness import corecorr as C
from harness import coreir as IR
from harness.common import CoqFailure, coq_list, coqc_file, parse_nat_list, run_impl
from harness.props import c01
from harness.translate.run import regenerate_core

PROP = 'theories/Props/C12.v'
HEADER = C.HEADER + 'From BT Require Import Core.Check.\n'


def regenerate(ctx):
    regenerate_core()


def vdepth(v):
    if v[0] in ('and', 'or'):
        return 1 + max(vdepth(v[1]), vdepth(v[2]))
    if v[0] == 'not':
        return 1 + vdepth(v[1])
    if v[0] == 'attr':
        return 1 + vdepth(v[2])
    return 0


def gen_cases(rng, n, maxdepth):
    out = []
    for _ in range(n):
        vs = [IR.gen_vexp(rng, rng.randint(0, maxdepth)) for _ in range(rng.choice([1, 1, 2, 3]))]
        mh = rng.choice([['any', 'object'], ['any', 'Any'], ['cls', 'int'], ['cls', 'UserA'], ['cls', 'str'],
                         ['cont', 'List', ['cls', 'int']]])
        for _ in range(3):
            r = rng.random()
            if r < 0.45:
                val = IR.gen_attr_object(rng, 3)
            elif r < 0.7:
                val = IR.gen_scalar(rng)
            elif r < 0.8:
                val = ['cls', rng.choice(['int', 'UserB', 'str', 'bool'])]
            else:
                val = IR.gen_sat(rng, mh)
            out.append({'vexps': vs, 'metahint': mh, 'value': val})
            if rng.random() < 0.4:
                # a second validated hint: the object is also checked below Union[first, second] in item positions
                mh2 = rng.choice([['any', 'object'], ['cls', 'int'], ['cls', 'str'], ['cls', 'UserA']])
                vs2 = [IR.gen_vexp(rng, rng.randint(0, 2)) for _ in range(rng.choice([1, 1, 2]))]
                if [mh2, vs2] != [mh, vs]:
                    out[-1]['second'] = {'metahint': mh2, 'vexps': vs2}
    # IsAttr of one attribute name nested in itself with a sibling operand after it (the temporaries holding the two attribute
    # values must stay apart), on attribute bags nested the same way
    def bag(**kw):
        return ['obj', 'UserA', [[k, v] for k, v in kw.items()]]
    leafs = [['eq', ['int', 1]], ['eq', ['int', 0]], ['inst', ['UserA']], ['inst', ['int']]]
    bags = [bag(x=bag(x=['int', 1])), bag(x=bag(y=['int', 0])), bag(x=bag(x=['int', 1], y=['int', 0])), bag(x=['int', 1]), bag(x=['int', 0]),
            bag(x=bag(x=bag(x=['int', 1]))), bag(y=['int', 1]), bag(x=bag(x=['int', 0], y=['int', 1]))]
    for _ in range(max(20, n // 6)):
        a = rng.choice(['x', 'y'])
        inner = ['attr', a, rng.choice(leafs)]
        sib = rng.choice(leafs + [['attr', rng.choice(['x', 'y']), rng.choice(leafs)]])
        body = [rng.choice(['and', 'or']), inner, sib]
        v = ['attr', a, body]
        v = rng.choice([v, v, ['not', v], ['or', v, ['eq', ['int', 7]]]])
        mh = rng.choice([['any', 'object'], ['cls', 'UserA']])
        for val in rng.sample(bags, 4):
            if a == 'y':
                val = json.loads(json.dumps(val).replace('"x"', '"_t"').replace('"y"', '"x"').replace('"_t"', '"y"'))
            out.append({'vexps': [v], 'metahint': mh, 'value': val})
    return out


def model_eval_union(ctx, tag, cases):
    """per case with a second validated hint: the model verdicts of [x] : List[Union[h, h2]], List[Union[h2, h]],
    {'k': x} : Dict[str, Union[h, h2]] and (0, x) : Tuple[int, Union[h, h2]]"""
    idx = [i for i, c in enumerate(cases) if c.get('second')]
    if not idx:
        return {}
    rows = []
    for i in idx:
        c = cases[i]
        h = ['annot', c['metahint'], c['vexps']]
        h2 = ['annot', c['second']['metahint'], c['second']['vexps']]
        rows.append('(%s, %s, %s)' % (IR.coq_hint(h), IR.coq_hint(h2), IR.coq_val(c['value'])))
    text = HEADER + '''
Definition evu (row : hint * hint * pyval) : list nat :=
  let '(h, h2, x) := row in
  let vd (hh : hint) (y : pyval) := match verdict 0 no_preds (check_expr {| is_random := true |} hh) y with
                                    | Ok true => 1 | Ok false => 0 | Exc _ => 2 end in
  [vd (HCont s_List (HUnion [h; h2])) (VCont c_list [x]); vd (HCont s_List (HUnion [h2; h])) (VCont c_list [x]);
   vd (HMap m_Dict (HCls c_str) (HUnion [h; h2])) (VMap c_dict [(VStr "k", x)]);
   vd (HTuple [HCls c_int; HUnion [h; h2]]) (VCont c_tuple [VInt 0; x])].
Definition rows := %s.
Eval vm_compute in (List.concat (map evu rows)).
''' % coq_list(['\n ' + r for r in rows])
    path = os.path.join(ctx.workdir, f'c12u_{tag}.v')
    with open(path, 'w') as f:
        f.write(text)
    flat = parse_nat_list(coqc_file(path))
    return {i: flat[4 * k:4 * k + 4] for k, i in enumerate(idx)}


def model_eval(ctx, tag, cases):
    """per case: [vmean of each validator], root verdict, nested verdict, index of first failing validator"""
    rows = []
    for c in cases:
        h = ['annot', c['metahint'], c['vexps']]
        rows.append('(%s, %s, %s)' % (coq_list([IR.coq_vexp(v) for v in c['vexps']]), IR.coq_hint(h), IR.coq_val(c['value'])))
    text = HEADER + '''
Definition ev1 (row : list vexp * hint * pyval) : list nat :=
  let '(vs, h, x) := row in
  let b2n (b : bool) := if b then 1 else 0 in
  let vd (hh : hint) (y : pyval) := match verdict 0 no_preds (check_expr {| is_random := true |} hh) y with
                                    | Ok true => 1 | Ok false => 0 | Exc _ => 2 end in
  ([vd h x; vd (HCont s_List h) (VCont c_list [x]); vd (HMap m_Dict (HCls c_str) h) (VMap c_dict [(VStr "k", x)]);
   b2n (wf x)] ++ map (fun v => b2n (vmean pb_table v x)) vs)%%list.
Definition rows := %s.
Eval vm_compute in (List.concat (map (fun r => (ev1 r ++ [9])%%list) rows)).
''' % coq_list(['\n ' + r for r in rows])
    path = os.path.join(ctx.workdir, f'c12_{tag}.v')
    with open(path, 'w') as f:
        f.write(text)
    flat = parse_nat_list(coqc_file(path))
    out, cur = [], []
    for x in flat:
        if x == 9:
            out.append(cur)
            cur = []
        else:
            cur.append(x)
    return out


def run(ctx):
    ctx.rule = ('random validator expressions over Is/IsAttr/IsEqual/IsInstance/IsSubclass with &,|,~ (depth <= 5, '
                'thorough 8; 1-3 validators per Annotated), metahints {object, Any, int, str, UserA, list[int]}, objects '
                'with nested attribute bags, scalars, classes; non-trivial = some validator has depth >= 1; distinct = '
                'distinct (validators, metahint, object); plus the shared core stream')
    ctx.assumptions += ['user callables inside Is[...] come from a closed table of total boolean functions written '
                        'both in Python and in Coq (raising or non-bool callables: C11)',
                        'temporaries are modelled by structured names (base variable + attribute path), an injective '
                        'abstraction of the textual "<obj>_isattr_<name>" names']
    ctx.safe_regenerate(regenerate)
    proof_err = c01.prove_core(ctx, PROP)
    failures = 0
    try:
        n = {'quick': 250, 'thorough': 7000}[ctx.tier]
        cases = gen_cases(ctx.rng, n, {'quick': 5, 'thorough': 8}[ctx.tier])
        for lo in range(0, len(cases), 300):
            part = cases[lo:lo + 300]
            obs = run_impl('c12_impl.py', {'cases': part})
            mod = model_eval(ctx, str(lo), part)
            modu = model_eval_union(ctx, str(lo), part)
            for pi, (c, o, m) in enumerate(zip(part, obs, mod)):
                ctx.case([c['vexps'], c['metahint'], c['value']], max(vdepth(v) for v in c['vexps']) >= 1,
                         sample={'validators': c['vexps'], 'metahint': c['metahint'], 'value': c['value'],
                                 'is_valid': o['is_valid'], 'root': o['root']})
                ctx.count('vdepth=%d' % max(vdepth(v) for v in c['vexps']))
                ctx.count('root:' + str(o['root']))
                root, nested, mapped, wf, means = m[0], m[1], m[2], m[3], m[4:]
                enc = lambda b: {True: 1, False: 0}.get(b, 2)  # noqa: E731
                problems = []
                if not wf:
                    problems.append('generated object is not well-formed in the model')
                if [enc(b) for b in o['is_valid']] != means:
                    problems.append('is_valid differs from the boolean meaning')
                if enc(o['root']) != root or enc(o['nested']) != nested or enc(o['mapped']) != mapped:
                    problems.append('is_bearable differs from the model verdict')
                if pi in modu:
                    want = modu[pi]
                    for (v, d), w in zip(o['union'], want):
                        if enc(v) != w or enc(d) != w:
                            problems.append('below a union of two validated hints in an item position: is_bearable %r, '
                                            'die_if_unbearable %r, model %r' % (v, d, w))
                            break
                if o['root'] is False and root == 0:
                    first_bad = [i for i, b in enumerate(means) if b == 0]
                    if first_bad and isinstance(o['named'], int) and o['named'] not in (first_bad[0], -1):
                        # -1: two validators with the same repr cannot be told apart
                        problems.append('the violation message names another validator than the first failing one')
                    if first_bad and o['diag_first'] is True:
                        problems.append('the violation message reports the failing validator as satisfied')
                if problems:
                    failures += 1
                    ctx.report({'clause': 'validator_three_way', 'problem': problems[0]},
                               {'case': c, 'implementation': o,
                                'model': {'root': root, 'nested': nested, 'mapped': mapped, 'vmean': means},
                                'problems': problems},
                               'generated code, is_valid, the message diagnosis and the boolean meaning disagree')
            if failures > 12:
                break
        if failures <= 12:
            failures += c01.run_stream(ctx, {'quick': 120, 'thorough': 3000}[ctx.tier], 4, c01.oracle,
                                       entries=('is_bearable', 'die_if_unbearable', 'param'))
    except CoqFailure as e:
        if proof_err is None:
            ctx.broken('corr/c12 model evaluation', e.log)
            return
    # IsEqual means ==, nothing else: objects outside the model's value universe whose == is not reflexive, or always true
    odd = odd_equality_probe()
    ctx.extra['odd_equality_probe'] = odd
    ctx.evaluations += len(odd.get('rows', []))
    if 'rows' not in odd:
        failures += 1
        ctx.report({'clause': 'odd_equality_probe_crashed'}, odd, 'the IsEqual probe crashed')
    for r in odd.get('rows', []):
        if r['generated'] != r['meaning'] or r['is_valid'] != r['meaning'] or r['nested'] != r['meaning']:
            if ctx.report({'clause': 'isequal_is_not_equality', 'pair': r['pair']}, r,
                          'IsEqual[v] disagrees with obj == v (generated code / is_valid / nested in a list)') == 'violation':
                failures += 1
    if proof_err is not None and not failures:
        ctx.broken(f'{PROP} ({proof_err.what})', proof_err.log)


ODD_PROBE = r'''
import json
from typing import Annotated, List
from beartype.door import is_bearable
from beartype.vale import IsEqual
class NeverEq:
    def __eq__(self, other): return False
    __hash__ = object.__hash__
class AlwaysEq:
    def __eq__(self, other): return True
    __hash__ = object.__hash__
class EqFalsy:                      # == answers a falsy non-bool
    def __eq__(self, other): return 0
    __hash__ = object.__hash__
nan = float('nan')
objs = {'nan': nan, 'never': NeverEq(), 'always': AlwaysEq(), 'falsy': EqFalsy(), 'one': 1, 'true': True, 'onef': 1.0, 'lst': [nan], 'tup': (nan,),
        'empty': [], 'str': 'a'}
rows = []
for vn, v in objs.items():
    v_ = IsEqual[v]
    for on, o in objs.items():
        meaning = bool(o == v)
        rows.append({'pair': on + '==' + vn, 'meaning': meaning,
                     'generated': bool(is_bearable(o, Annotated[object, v_])),
                     'is_valid': bool(v_.is_valid(o)),
                     'nested': bool(is_bearable([o], List[Annotated[object, v_]]))})
print(json.dumps({'rows': rows}))
'''


def odd_equality_probe():
    import subprocess
    from harness.common import PY, impl_env
    p = subprocess.run([PY, '-c', ODD_PROBE], capture_output=True, text=True, env=impl_env(), timeout=120)
    try:
        return json.loads(p.stdout.strip().splitlines()[-1])
    except Exception:  # noqa
        return {'probe_failed': (p.stderr or 'no output')[-600:]}


def replay(ctx, path):
    c01.replay(ctx, path)
