"""C11 — only beartype's own exceptions for bad hints; user exceptions pass through.  See DESIGN.md 5/C11.

proof:          coq/theories/Props/C11.v (C11/Exc.v, C11/Proofs.v): taxonomy facts over the generated class table, the
                is_hint / die_unless_hint decision procedure, callable_cached transparency for every call history, the
                stages of the entry points
translator tie: harness/translate/exctree.py regenerates Gen/ExcTree.v (classes, bases, exported names, classes raised by
                name anywhere under beartype/) on every run
correspondence: (a) is_hint / die_unless_hint on abstracted objects against the model; (b) the real callable_cached around
                scripted functions (values, TypeError, other exceptions, BaseException; hashable and unhashable
                arguments) against the model; (c) a generator of malformed hints (junk leaves, every name exported by
                typing, 40 subscription constructors incl. wrong arities through types.GenericAlias, depth <= 3) through
                is_bearable, die_if_unbearable, TypeHint, ==, is_subhint both ways, TypeHint.is_bearable, @beartype on a
                parameter / a return / a class and the calls, under 4 configurations: every exception and every warning
                beartype emits is judged by the model's [phase_ok] / [warning_ok] over the generated table;
                (d) user exceptions raised in the body, in __instancecheck__, in validators, in __eq__: same object out
"""
import json
import os
import subprocess

from harness.common import COQ, PY, VERIF, CoqFailure, coq_list, coq_str, coqc_many, impl_env, parse_nat_list, run_impl, write_if_changed

PROP = 'theories/Props/C11.v'
HEADER = ('From Coq Require Import List String Bool Arith.\nFrom BT Require Import Gen.ExcTree C11.Exc C11.Corr.\nImport ListNotations.\n'
          'Open Scope string_scope.\n')

VALID = ['int', 'str', 'float', 'None', 'Any', 'List[int]', 'list[str]', 'ref_int', 'object', 'Union[int,str]', 'tuple']
JUNK = ['j_int', 'j_float', 'j_bytes', 'j_list', 'j_dict', 'j_set', 'j_ellipsis', 'j_notimpl', 'j_lambda', 'j_module', 'j_instance',
        'j_emptytuple', 'j_tuple_cls', 'j_tuple_mixed', 'j_tuple_junk', 'j_tuple_nested', 'j_tuple_noninst', 'j_str_unres', 'j_str_syntax',
        'j_str_empty', 'j_str_dotted', 'j_str_expr', 'j_str_space', 'j_str_kw', 'j_emptylist', 'j_true', 'j_complex', 'j_range', 'j_func',
        'j_method', 'j_property', 'j_slice', 'j_frozenset', 'cls_noninst']
SPECIAL = ['G', 'G[int]', 'TypeVar', 'TypeVar_bound', 'NewType', 'Generic', 'Protocol', 'ClassVar[int]', 'Final[int]', 'NoReturn', 'Callable',
           'Callable_bare', 'Type[Any]', 'Literal_1', 'type', 'abc.Sized', 'Is', 'Is_bare', 'IsEqual_bare']
CTORS = {'list': 1, 'List': 1, 'set': 1, 'frozenset': 1, 'Sequence': 1, 'Iterable': 1, 'dict': 2, 'Dict': 2, 'dict3': 3, 'dict1': 1, 'list2': 2,
         'list0': 1, 'galias_junk_origin': 2, 'tuple_var': 1, 'tuple_fixed': 2, 'Tuple': 2, 'tuple_ell_first': 1, 'tuple_ell_mid': 2, 'Union': 2,
         'Optional': 1, 'or': 2, 'type': 1, 'Type': 1, 'Literal': 1, 'Literal2': 2, 'Annotated_meta': 1, 'Annotated_unhashable': 1,
         'Annotated_is': 1, 'Annotated_is_mixed': 1, 'Is_junk': 1, 'IsAttr_junk': 1, 'Callable': 2, 'abc_Callable': 2, 'Final': 1, 'ClassVar': 1,
         'G': 1, 'typing_sub1': 2, 'typing_sub2': 3, 'TypeVar_bound': 1, 'TypeVar_constr': 2, 'NewType': 1}
ARITY_ORIGINS = ['cabc.ItemsView', 'cabc.KeysView', 'cabc.ValuesView', 'cabc.Mapping', 'cabc.MutableMapping', 'cabc.Sequence',
                 'cabc.MutableSequence', 'cabc.Set', 'cabc.MutableSet', 'cabc.Collection', 'cabc.Container', 'cabc.Iterable', 'cabc.Iterator',
                 'cabc.Reversible', 'cabc.Generator', 'cabc.AsyncGenerator', 'cabc.Coroutine', 'cabc.Awaitable', 'cabc.AsyncIterable',
                 'cabc.AsyncIterator', 'cabc.Callable', 'collections.deque', 'collections.defaultdict', 'collections.OrderedDict',
                 'collections.Counter', 'collections.ChainMap', 'tuple', 'type', 'frozenset', 'set', 'contextlib.AbstractContextManager',
                 're.Pattern', 're.Match']
OBJS = ['1', 'a', 'None', '[1]', '[[]]', "(1,'a')", '{}', "{'a':1}", 'int', '1.5', '[a]', '{1}', 'obj']
CONFS = ['default', 'default', 'tower', 'O0', 'warn']
PHASE = {'is_bearable': 'PCheck', 'die_if_unbearable': 'PCheck', 'TypeHint_bearable': 'PCheck', 'TypeHint': 'PDoor', 'is_subhint_l': 'PDoor',
         'is_subhint_r': 'PDoor', 'TypeHint_eq': 'PDoor', 'decor_param': 'PDecor', 'decor_return': 'PDecor', 'decor_class': 'PDecor',
         'call_param': 'PCall', 'call_return': 'PCall'}
USER_EXCS = ['UserErr', 'UserTypeErr', 'UserBase', 'TypeError', 'KeyError', 'AttributeError', 'RecursionError', 'StopIteration', 'ValueError']
WHERES = ['body', 'hook', 'hook_nested', 'hook_union', 'validator', 'validator_nested', 'validator_and', 'isequal', 'repr', 'repr_nested']


def typing_names():
    p = subprocess.run([PY, '-c', 'import typing; print(" ".join(n for n in typing.__all__ if not n.startswith("_")))'],
                       capture_output=True, text=True, env=impl_env())
    return ['typing.' + n for n in p.stdout.split()]


def regenerate(ctx):
    p = subprocess.run([PY, os.path.join(VERIF, 'harness', 'translate', 'exctree.py')], capture_output=True, text=True, env=impl_env())
    if p.returncode != 0:
        raise CoqFailure('translator exctree.py', p.stdout[-1000:] + p.stderr[-3000:])
    write_if_changed(os.path.join(COQ, 'theories/Gen/ExcTree.v'), p.stdout)


def gen_hint(rng, depth, typing_pool):
    if depth == 0 or rng.random() < 0.35:
        pool = rng.choice([VALID, JUNK, JUNK, SPECIAL, typing_pool])
        return ['leaf', rng.choice(pool)]
    c = rng.choice(sorted(CTORS) + ['arity', 'arity', 'arity'])
    if c == 'arity':
        # a PEP 585 alias of a standard container / protocol with 0-3 arguments (CPython does not count them; beartype must)
        c = 'arity:%s:%d' % (rng.choice(ARITY_ORIGINS), rng.randrange(4))
        ch = [gen_hint(rng, min(depth - 1, 1), typing_pool) for _ in range(3)]
        return ['sub', c, ch]
    ch = [gen_hint(rng, depth - 1, typing_pool) for _ in range(CTORS[c])]
    if c.startswith('typing_sub'):
        ch[0] = ['leaf', rng.choice(typing_pool)]
    return ['sub', c, ch]


def hint_depth(h):
    return 0 if h[0] == 'leaf' else h[2] if h[0] == 'deep' else 1 + max(hint_depth(c) for c in h[2])


def coq_jhint(a):
    if a[0] == 'JPep':
        return '(JPep %s %s)' % (str(a[1]).lower(), str(a[2]).lower())
    if a[0] == 'JType':
        return '(JType %s)' % str(a[1]).lower()
    if a[0] == 'JTuple':
        return '(JTuple %s)' % coq_list(['(IType %s)' % str(i[1]).lower() if i[0] == 'IType' else i[0] for i in a[1]])
    return 'JOther'


USER_FLAGS = {'UserErr': (1, False, False), 'UserTypeErr': (2, True, False), 'UserBase': (3, False, True), 'TypeError': (4, True, False),
              'KeyError': (5, False, False), 'ValueError': (6, False, False), 'AttributeError': (7, False, False)}


PLAIN_ORIGINS = {'int', 'str', 'float', 'object', 'tuple', 'type', 'G', 'abc.Sized', 'cls_noninst'}


def galias_odd_origin(h):
    """the hint contains a types.GenericAlias whose origin is not a plain class"""
    if h[0] == 'leaf':
        return False
    if h[0] == 'deep':
        return galias_odd_origin(h[3])
    if h[1] == 'galias_junk_origin' and not (h[2][0][0] == 'leaf' and h[2][0][1] in PLAIN_ORIGINS):
        return True
    return any(galias_odd_origin(c) for c in h[2])


def leak_kind(api, exc):
    """Python-side mirror of Corr.phase_ok used only to describe a failure (the verdict is the model's)"""
    if not exc['beartype']:
        return 'raw'
    if exc['cls'].startswith('_'):
        return 'private'
    return 'phase'


def run(ctx):
    ctx.rule = ('hints: depth <= 3 over 11 valid leaves, 34 junk leaves (numbers, containers, functions, modules, strings that do not '
                'resolve / parse, nested and malformed tuples, a class that cannot be instance-checked), 19 special forms, every name '
                'typing exports, 41 constructors (builtin, typing and collections.abc generics, wrong arities and junk origins through '
                'types.GenericAlias, Ellipsis misplaced, Literal / Annotated / validators over junk, TypeVar bounds and constraints, '
                'NewType over junk) x 13 objects x 4 configurations x 12 entry points; user exceptions: 9 classes x 10 places (the wrapped body, __instancecheck__, validators, __eq__, and __repr__ of a rejected object) x the entry '
                'points that reach them; callable_cached: 1-4 keys x 1-10 calls; non-trivial = a hint of depth >= 1, or a user exception '
                'case, or a memo history with a raising key; distinct = distinct case')
    ctx.assumptions += ['what the typing module itself refuses to build (about 10% of generated subscriptions) is outside the property',
                        'warnings are attributed to their real emitter (warnings.warn wrapped before beartype is imported): warnings CPython '
                        'emits about a deprecated hint (typing.ByteString) are not beartype\'s',
                        'PARTIAL: the theorem about validation covers the root-level decision procedure; malformed children of subscripted '
                        'hints, the DOOR wrappers and the error path are decided by the generator only',
                        'hints nested 40, 150 and 400 levels deep are probed with six / one constructors only']
    proof_err = None
    try:
        regenerate(ctx)
    except CoqFailure as e:
        proof_err = e
    try:
        if proof_err is not None:
            raise proof_err
        ctx.prove(PROP, extra_targets=['theories/C11/Corr.vo'])
    except CoqFailure as e:
        proof_err = e
        from harness.common import coq_make
        try:
            coq_make(['theories/C11/Corr.vo'])
        except CoqFailure as e2:
            ctx.broken('corr/c11 model does not build', e2.log)
            return
    failures = 0
    tp = typing_names()
    n = {'quick': 1500, 'thorough': 40000}[ctx.tier]
    # ---- (c) malformed hints
    cases = []
    cdir = os.path.join(VERIF, 'corpus', 'C11')
    if os.path.isdir(cdir):
        for fn in sorted(os.listdir(cdir)):
            with open(os.path.join(cdir, fn)) as f:
                c = json.load(f)
            if c.get('kind') == 'junk':
                cases.append(c)
    cases += [e['witness'] for e in ctx.known if e['status'] == 'known' and isinstance(e.get('witness'), dict) and e['witness'].get('kind') == 'junk']
    for i in range(n):
        cases.append({'kind': 'junk', 'hint': gen_hint(ctx.rng, ctx.rng.choice([0, 1, 1, 2, 3]), tp), 'obj': ctx.rng.choice(OBJS),
                      'conf': ctx.rng.choice(CONFS)})
    for c in ('list', 'List', 'Optional', 'tuple_var', 'Annotated_meta', 'type'):
        cases.append({'kind': 'junk', 'hint': ['deep', c, 40, ['leaf', 'int']], 'obj': '1', 'conf': 'default'})
        cases.append({'kind': 'junk', 'hint': ['deep', c, 40, ['leaf', 'j_int']], 'obj': '1', 'conf': 'default'})
    # every standard container / protocol origin with 0, 1, 2 and 3 well-formed arguments, alone and below a list
    for o in ARITY_ORIGINS:
        for k in range(4):
            kids = [['leaf', 'int'], ['leaf', 'str'], ['leaf', 'float']]
            cases.append({'kind': 'junk', 'hint': ['sub', 'arity:%s:%d' % (o, k), kids], 'obj': '1', 'conf': 'default'})
            if k in (1, 3):
                cases.append({'kind': 'junk', 'hint': ['sub', 'list', [['sub', 'arity:%s:%d' % (o, k), kids]]], 'obj': '[1]', 'conf': 'default'})
    for d in (150, 400):          # beyond the parser's nesting limit / beyond the 256 entries of the hint queue
        cases.append({'kind': 'junk', 'hint': ['deep', 'list', d, ['leaf', 'int']], 'obj': '[1]', 'conf': 'default'})
    rows, index, seen_rows = [], [], {}
    for lo in range(0, len(cases), 400):
        part = cases[lo:lo + 400]
        obs = run_impl('c11_impl.py', {'cases': part}, timeout=1800)
        for case, o in zip(part, obs):
            if 'harness_error' in o:
                failures += 1
                ctx.report({'clause': 'harness'}, {'case': case, 'error': o['harness_error']}, 'the harness itself failed on a generated hint')
                continue
            if 'unbuildable' in o:
                ctx.count('unbuildable_by_typing')
                continue
            ctx.case(case, hint_depth(case['hint']) >= 1, sample={'case': case, 'is_bearable': o['is_bearable'][0], 'decor_param': o['decor_param'][0]})
            ctx.count('depth:%d' % min(hint_depth(case['hint']), 4))
            ctx.count('conf:' + case['conf'])
            for api, (out, ws) in o.items():
                ctx.evaluations += 1
                exc = None if out['ok'] else out['exc']
                ctx.count('outcome:' + ('ok' if exc is None else 'beartype_exception' if exc['beartype'] else 'other_exception'))
                wnames = [w['cls'] for w in ws if not (case['conf'] == 'warn' and w['cls'] == 'UserWarning')]
                key = (PHASE[api], exc['cls'] if exc else None, tuple(wnames))
                if key not in seen_rows:
                    seen_rows[key] = len(rows)
                    rows.append('{| o_phase := %s; o_exc := %s; o_warns := %s |}' % (
                        key[0], 'Some %s' % coq_str(key[1]) if key[1] else 'None', coq_list([coq_str(w) for w in wnames])))
                    index.append([])
                if len(index[seen_rows[key]]) < 40:
                    index[seen_rows[key]].append((case, api, out, ws))
    text = HEADER + 'Definition cases : list ocase := %s.\nEval vm_compute in (ofailing cases).\n' % coq_list(['\n ' + r for r in rows])
    path = os.path.join(ctx.workdir, 'c11_o.v')
    with open(path, 'w') as f:
        f.write(text)
    ctx.extra['distinct_outcome_rows'] = len(rows)
    reported = set()
    for j in parse_nat_list(coqc_many([path], jobs=1)[0]):
        for case, api, out, ws in index[j]:
            exc = None if out['ok'] else out['exc']
            if exc is not None:
                shape = {'clause': 'leak', 'kind': leak_kind(api, exc), 'cls': exc['cls'], 'site': exc.get('site'),
                         'galias_odd_origin': galias_odd_origin(case['hint'])}
                what = 'a %s exception %s leaves %s (raised under %s)' % (shape['kind'], exc['cls'], api, exc.get('site'))
            else:
                bad = [w for w in ws if not w['beartype']]
                shape = {'clause': 'warning', 'cls': bad[0]['cls'] if bad else '?', 'site': bad[0]['site'] if bad else None}
                what = 'beartype emits a warning that is not a BeartypeWarning: %s' % shape['cls']
            k = json.dumps(shape, sort_keys=True)
            if k in reported:
                continue
            reported.add(k)
            if ctx.report(shape, {'case': case, 'api': api, 'outcome': out, 'warnings': ws}, what) == 'violation':
                failures += 1
    # ---- (d) user exceptions
    ucases = []
    for w in WHERES:
        for x in USER_EXCS:
            for conf in (['default', 'O0'] if ctx.tier == 'quick' else ['default', 'tower', 'O0', 'warn']):
                if conf == 'O0' and w != 'body':
                    continue          # nothing is checked under O0: the hooks are never reached
                ucases.append({'kind': 'user', 'where': w, 'exc': x, 'conf': conf, 'asyncgen': w == 'body'})
    obs = run_impl('c11_impl.py', {'cases': ucases}, timeout=1200)
    for case, o in zip(ucases, obs):
        ctx.case(case, True, sample={'case': case, 'observed': o} if case['where'] == 'validator_nested' else None)
        ctx.count('user_exception:' + case['where'])
        if 'harness_error' in o or 'decor_failed' in o:
            failures += 1
            ctx.report({'clause': 'user_exception_setup', 'where': case['where']}, {'case': case, 'observed': o}, 'a scenario with user code that raises could not be set up')
            continue
        for api, r in o.items():
            ctx.evaluations += 1
            ok = r.get('raised') and r.get('same_object') and r.get('args_kept') and r.get('cause') is None
            if not ok:
                shape = {'clause': 'user_exception', 'where': case['where'], 'api': api, 'exc': case['exc'],
                         'got': r.get('cls') if r.get('raised') else 'nothing raised'}
                if ctx.report(shape, {'case': case, 'api': api, 'observed': r},
                              'an exception raised by user code (%s in %s) does not come out of %s unchanged' % (case['exc'], case['where'], api)) == 'violation':
                    failures += 1
    # ---- warnings on a rarely taken path: a validator lambda in a source file too large to parse
    big = run_impl('c11_impl.py', {'cases': [{'kind': 'biglambda'}]}, timeout=600)[0]
    ctx.extra['big_lambda_probe'] = big
    ctx.evaluations += 1
    if 'harness_error' in big or not big.get('warnings'):
        failures += 1
        ctx.report({'clause': 'big_lambda_probe'}, {'observed': big}, 'the probe of validators defined in a very large file did not produce the expected warning')
    else:
        for w in big['warnings']:
            if not w['beartype']:
                if ctx.report({'clause': 'warning', 'cls': w['cls'], 'site': w['site']}, {'case': {'kind': 'biglambda'}, 'observed': big},
                              'beartype emits a warning that is not a BeartypeWarning: %s (validator lambda in a source file of %d bytes)' % (w['cls'], big.get('size', 0))) == 'violation':
                    failures += 1
                break
    # ---- (b) callable_cached
    ccases = []
    for i in range({'quick': 400, 'thorough': 6000}[ctx.tier]):
        nk = ctx.rng.randint(1, 4)
        script = {}
        for k in range(nk):
            script[str(k)] = ['ret', ctx.rng.randint(0, 9)] if ctx.rng.random() < 0.5 else ['raise', ctx.rng.choice(sorted(USER_FLAGS))]
        keys = [[ctx.rng.randrange(nk), ctx.rng.random() < 0.7] for _ in range(ctx.rng.randint(1, 10))]
        ccases.append({'kind': 'cached', 'script': script, 'keys': keys})
    obs = run_impl('c11_impl.py', {'cases': ccases}, timeout=600)
    crow, cindex = [], []
    for case, o in zip(ccases, obs):
        ctx.case(case, any(v[0] == 'raise' for v in case['script'].values()))
        ctx.count('memo_history')
        direct = [case['script'][str(k)] for k, _ in case['keys']]
        got = [[a, (b if a == 'ret' else b)] for a, b in o['outs']]
        if got != [[a[0], a[1]] for a in direct]:
            failures += 1
            ctx.report({'clause': 'memo_not_transparent'}, {'case': case, 'observed': o}, 'callable_cached changed what the function does')
            continue

        def act(a):
            if a[0] == 'ret':
                return '(ARet %d)' % a[1]
            n_, t, b = USER_FLAGS[a[1]]
            return '(ARaise %d %s %s)' % (n_, str(t).lower(), str(b).lower())

        def res(a):
            if a[0] == 'ret':
                return '(Ret %d)' % a[1]
            n_, t, b = USER_FLAGS[a[1]]
            return '(Raise (EUser %d %s %s))' % (n_, str(t).lower(), str(b).lower())
        crow.append('{| c_script := %s; c_keys := %s; c_obs := %s |}' % (
            coq_list(['(%s, %s)' % (k, act(v)) for k, v in sorted(case['script'].items())]),
            coq_list(['{| kid := %d; hashable := %s |}' % (k, str(h).lower()) for k, h in case['keys']]),
            coq_list([res(x) for x in o['outs']])))
        cindex.append((case, o))
    # ---- (a) validation
    vcases = []
    leaves = VALID + JUNK + SPECIAL + ['typing.NoReturn', 'typing.ClassVar', 'typing.Final', 'typing.List', 'typing.Any']
    for lf in leaves:
        for ref in (True, False):
            for ec in ('BeartypeDecorHintNonpepException', 'BeartypeDoorNonpepException'):
                vcases.append({'kind': 'validate', 'hint': ['leaf', lf], 'ref_str_valid': ref, 'ec': ec})
    obs = run_impl('c11_impl.py', {'cases': vcases}, timeout=600)
    vrow, vindex = [], []
    for case, o in zip(vcases, obs):
        if 'unbuildable' in o or 'harness_error' in o:
            continue
        ctx.case(case, o['abstract'][0] != 'JPep')
        ctx.count('validate:' + o['abstract'][0])
        if not o['is_hint']['ok']:
            failures += 1
            ctx.report({'clause': 'is_hint_raised'}, {'case': case, 'observed': o}, 'is_hint raised instead of answering')
            continue
        die = None if o['die']['ok'] else o['die']['exc']['cls']
        vrow.append('{| v_hint := %s; v_ref := %s; v_ec := %s; v_is_hint := %s; v_die := %s |}' % (
            coq_jhint(o['abstract']), str(case['ref_str_valid']).lower(), coq_str(case['ec']), str(bool(o['is_hint']['value'])).lower(),
            'Some %s' % coq_str(die) if die else 'None'))
        vindex.append((case, o))
    paths = []
    for name, rws, fn in (('c11_c', crow, 'cfailing'), ('c11_v', vrow, 'vfailing')):
        typ = 'ccase' if fn == 'cfailing' else 'vcase'
        for lo in range(0, len(rws), 400):
            pth = os.path.join(ctx.workdir, f'{name}_{lo}.v')
            with open(pth, 'w') as f:
                f.write(HEADER + 'Definition cases : list %s := %s.\nEval vm_compute in (%s cases).\n' % (typ, coq_list(['\n ' + r for r in rws[lo:lo + 400]]), fn))
            paths.append((pth, name, lo))
    outs = coqc_many([p for p, _, _ in paths], jobs=8)
    for (pth, name, lo), out in zip(paths, outs):
        for j in parse_nat_list(out)[:3]:
            failures += 1
            case, o = (cindex if name == 'c11_c' else vindex)[lo + j]
            ctx.report({'clause': 'correspondence', 'part': name}, {'case': case, 'observed': o},
                       'the model (C11/Exc.v) and beartype disagree on ' + ('callable_cached' if name == 'c11_c' else 'is_hint / die_unless_hint'))
    # hints that reach themselves through forward references (directly, mutually, below containers), resolved while decorating
    # or at the first call, through every entry point: only beartype's own exceptions may come out
    try:
        rrows = run_impl('c11_recursive.py', {}, timeout=600)
    except Exception as e:  # noqa
        rrows = [{'hint': 'crash', 'use': 'probe', 'outcome': 'LEAK:' + str(e)[-300:]}]
    ctx.evaluations += len(rrows)
    ctx.extra['recursive_forward_reference_rows'] = len(rrows)
    for r in rrows:
        if r['outcome'].startswith('LEAK'):
            if ctx.report({'clause': 'foreign_exception', 'stream': 'recursive_forward_reference', 'use': r['use'],
                           'class': r['outcome'].split(':', 1)[1]}, r,
                          'a self-referential forward-reference hint let an exception that is not beartype\'s own escape') == 'violation':
                failures += 1
                if failures > 12:
                    break
    if proof_err is not None and not failures:
        ctx.broken(f'{PROP} ({proof_err.what})', proof_err.log)


def replay(ctx, path):
    with open(path) as f:
        body = json.load(f)
    case = body['record'].get('case')
    if body['record'].get('use') and body['record'].get('outcome') and 'hint' in body['record']:
        for r in run_impl('c11_recursive.py', {}, timeout=600):
            if r['hint'] == body['record']['hint'] and r['use'] == body['record']['use']:
                print(json.dumps(r))
                if r['outcome'].startswith('LEAK'):
                    ctx.report(body.get('shape') or {'clause': 'foreign_exception'}, r, 'the exception still escapes')
        return
    if case:
        print(json.dumps(run_impl('c11_impl.py', {'cases': [case]})[0])[:4000])
