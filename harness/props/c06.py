"""C06 — hook scoping after any history.  See DESIGN.md section 5/C06.

proof:          coq/theories/Props/C06.v  (refinement trie model -> flat spec, all histories)
translator tie: Gen/C06Builtin.v regenerated from the repository (built-in exclusions)
correspondence: random registry histories replayed on beartype.claw and on the model
"""
import json
import os

from harness.common import (COQ, CoqFailure, ImplCrash, coq_list, coq_opt, coq_str, coqc_file,
                            parse_nat_list, run_impl, shrink_list, write_if_changed)

PROP = 'theories/Props/C06.v'
ALPHA = ['a', 'b', 'c']


# ------------------------------------------------------------------ encoding

def coq_name(n):
    return coq_list([coq_str(b) for b in n])


def coq_conf(c):
    return '{| cid := %d; cskip := %s; cwarn := %s; cvia := %s |}' % (
        c['id'], coq_list([coq_name(n) for n in c['skip']]), coq_opt(c['warn']),
        'true' if c.get('via') else 'false')


def coq_op(op):
    k = op[0]
    if k == 'all':
        return f'OAll {coq_conf(op[1])}'
    if k == 'pkgs':
        return f'OPkgs {coq_list([coq_name(n) for n in op[1]])} {coq_conf(op[2])}'
    if k == 'enter':
        return f'OEnter {coq_conf(op[1])}'
    return 'OExit'


RES = {'ok': 'ROk', 'conflict': 'RConflict', 'noctx': 'RNoCtx'}


def coq_case(case, obs):
    return ('{| k_ops := %s; k_queries := %s; k_results := %s; k_answers := %s; k_hook := %s |}' % (
        coq_list([coq_op(o) for o in case['ops']]),
        coq_list([coq_name(q) for q in case['queries']]),
        coq_list([RES[r] for r in obs['results']]),
        coq_list([coq_opt(a, lambda c: '(' + coq_conf(c) + ')') for a in obs['answers']]),
        'true' if obs['hook'] else 'false'))


HEADER = ('From Coq Require Import List String.\nFrom BT Require Import C06.Trie C06.Corr Gen.C06Builtin.\n'
          'Import ListNotations.\nOpen Scope string_scope.\n')


def model_failing(ctx, tag, cases, observed):
    """Indices of the cases on which model (or spec) and implementation differ."""
    bad = []
    todo = []
    for i, (c, o) in enumerate(zip(cases, observed)):
        if any(r not in RES for r in o['results']):
            bad.append(i)
        else:
            todo.append(i)
    text = HEADER + 'Definition cases : list case := %s.\n' % coq_list(
        ['\n  ' + coq_case(cases[i], observed[i]) for i in todo]) + \
        'Eval vm_compute in (failing builtin_excluded cases).\n'
    path = os.path.join(ctx.workdir, f'cases_{tag}.v')
    with open(path, 'w') as f:
        f.write(text)
    out = coqc_file(path)
    bad += [todo[j] for j in parse_nat_list(out)]
    return sorted(bad)


# ------------------------------------------------------------------ generators

def gen_name(rng, builtin):
    if rng.random() < 0.06:
        return [rng.choice(builtin)] + [rng.choice(ALPHA) for _ in range(rng.randint(0, 1))]
    return [rng.choice(ALPHA) for _ in range(rng.choice([1, 1, 2, 2, 2, 3, 3]))]


def gen_conf(rng, builtin, pool):
    if pool and rng.random() < 0.6:
        return rng.choice(pool)
    c = {'id': rng.randint(0, 3),
         'skip': [gen_name(rng, builtin) for _ in range(rng.choice([0, 0, 0, 0, 1, 1, 2]))],
         'warn': rng.choice([None, None, None, None, 0, 1, 2])}
    pool.append(c)
    return c


def gen_case(rng, builtin, maxlen):
    pool = []
    ops = []
    depth = 0
    for _ in range(rng.randint(1, maxlen)):
        r = rng.random()
        if r < 0.15:
            ops.append(['all', gen_conf(rng, builtin, pool)])
        elif r < 0.6:
            names = [gen_name(rng, builtin) for _ in range(rng.choice([1, 1, 1, 2, 3]))]
            how = 'auto'
            if len(names) == 1 and rng.random() < 0.3:
                how = rng.choice(['this', 'many'])
            ops.append(['pkgs', names, gen_conf(rng, builtin, pool), how])
        elif r < 0.8:
            ops.append(['enter', gen_conf(rng, builtin, pool)])
            depth += 1
        elif depth > 0 or rng.random() < 0.1:
            ops.append(['exit'])
            depth = max(0, depth - 1)
        else:
            ops.append(['all', gen_conf(rng, builtin, pool)])
    # usually leave the contexts closed so that restoration is observed
    if rng.random() < 0.7:
        ops += [['exit']] * depth
    queries = [gen_name(rng, builtin) for _ in range(6)] + \
              [n + [rng.choice(ALPHA)] for o in ops if o[0] == 'pkgs' for n in o[1][:1]][:4]
    return {'ops': ops, 'queries': queries}


def nontrivial(case):
    kinds = {o[0] for o in case['ops']}
    return len(case['ops']) >= 2 and ('pkgs' in kinds or 'enter' in kinds)


# ------------------------------------------------------------------ oracles for known findings

def oracle_exit_skip(witness):
    """F2b: names skipped by the configuration of a beartyping() block stay
    skipped after the block is left."""
    c = witness['conf']
    q = witness['query']
    obs = run_impl('c06_impl.py', {'cases': [
        {'ops': [['all', witness['outer']]], 'queries': [q]},
        {'ops': [['all', witness['outer']], ['enter', c], ['exit']], 'queries': [q]}]})
    before, after = obs[0]['answers'][0], obs[1]['answers'][0]
    return before != after, {'clause': 'context_restore', 'diff': 'skip-list-kept'}, \
        {'witness': witness, 'before': before, 'after': after}


KNOWN_ORACLES = {'F2b': oracle_exit_skip}


# ------------------------------------------------------------------ classification of a disagreement

def classify(case, obs):
    kinds = ';'.join(o[0] for o in case['ops'])
    return {'clause': 'correspondence', 'kinds': kinds,
            'has_exc': any(r.startswith('exc:') for r in obs['results'])}


# ------------------------------------------------------------------ main

def regenerate(ctx):
    builtin = run_impl('c06_impl.py', {'builtin': True})
    text = ('(* GENERATED by harness/props/c06.py from beartype/_data/shame/module/datashamemod.py\n'
            '   (BLACKLIST_PACKAGE_NAMES) and beartype/claw/_clawstate.py (_init).  Do not edit. *)\n'
            'From Coq Require Import List String.\nImport ListNotations.\nOpen Scope string_scope.\n'
            'Definition builtin_excluded : list string := %s.\n' % coq_list([coq_str(b) for b in builtin]))
    write_if_changed(os.path.join(COQ, 'theories/Gen/C06Builtin.v'), text)
    return builtin


def load_corpus():
    d = os.path.join(os.path.dirname(COQ), 'corpus', 'C06')
    out = []
    if os.path.isdir(d):
        for f in sorted(os.listdir(d)):
            if f.endswith('.json'):
                with open(os.path.join(d, f)) as fh:
                    out.append(json.load(fh))
    return out


def run(ctx):
    ctx.rule = ('random registry histories (beartype_all / beartype_package(s) / beartype_this_package / '
                'beartyping enter+exit, names over {a,b,c}^<=3 plus built-in excluded names, configurations '
                'with skip lists and explicit/implicit decorator-warning classes), each followed by 6-10 '
                'queries; non-trivial = at least two operations including a package registration or a '
                'context; distinct = distinct (ops, queries)')
    ctx.assumptions += [
        'python -O (hook_packages returns at once) is not modelled',
        'the PackagesTrieBlacklisted singleton is mutated by insertions below an already skipped name; '
        'no lookup looks inside it, so the model makes that leaf absorbing',
        'sys.path_hooks / importlib cache invalidation are observed only as "hook installed or not"',
    ]
    builtin = regenerate(ctx)
    # 1-2. proofs
    try:
        ctx.prove(PROP, extra_targets=['theories/C06/Corr.vo'])
        proof_ok = True
    except CoqFailure as e:
        proof_ok = False
        proof_err = e
    # 3. corpus and known findings
    for wid, fn in KNOWN_ORACLES.items():
        for e in ctx.known:
            if e['id'] == wid and e['status'] == 'known':
                repro, shape, rec = fn(e['witness'])
                ctx.count('known_witness_replayed')
                if repro:
                    ctx.report(shape, rec, e['what'])
    n = {'quick': 1500, 'thorough': 40000}[ctx.tier]
    maxlen = {'quick': 10, 'thorough': 24}[ctx.tier]
    corpus = load_corpus()
    cases = list(corpus) + [gen_case(ctx.rng, builtin, maxlen) for _ in range(n)]
    failures = []
    shard = 500
    for lo in range(0, len(cases), shard):
        part = cases[lo:lo + shard]
        obs = run_impl('c06_impl.py', {'cases': part})
        try:
            bad = model_failing(ctx, f'{lo}', part, obs)
        except CoqFailure as e:
            if proof_ok:
                ctx.broken('corr/c06 model evaluation (theories/C06/Trie.v does not compile)', e.log)
                return
            bad = []
        for c, o in zip(part, obs):
            ctx.case([c['ops'], c['queries']], nontrivial(c),
                     sample={'ops': c['ops'], 'queries': c['queries'][:3], 'observed': o['results']})
            ctx.count('len=%d' % min(len(c['ops']), 12))
            for op in c['ops']:
                ctx.count('op:' + op[0])
            for r in o['results']:
                ctx.count('result:' + r)
            ctx.count('answers:some', sum(a is not None for a in o['answers']))
            ctx.count('answers:none', sum(a is None for a in o['answers']))
        failures += [(part[i], obs[i]) for i in bad]
        if len(failures) > 10:
            break
    # 4. shrink and report disagreements
    for case, o in failures[:3]:
        def still(ops):
            c2 = {'ops': ops, 'queries': case['queries']}
            o2 = run_impl('c06_impl.py', {'cases': [c2]})
            return bool(model_failing(ctx, 'shrink', [c2], o2))
        ops = shrink_list(case['ops'], still, max_steps=60)
        c2 = {'ops': ops, 'queries': case['queries']}
        o2 = run_impl('c06_impl.py', {'cases': [c2]})[0]
        ctx.report(classify(c2, o2), {'case': c2, 'implementation': o2,
                                      'expected': 'observations of coq/theories/C06/Trie.v (= Spec.v) on the same history',
                                      'original_case': case},
                   'registry history on which beartype.claw and the proved model disagree')
    ctx.extra['correspondence_failures'] = len(failures)
    if not proof_ok:
        if not failures:
            ctx.broken(f'{PROP} ({proof_err.what})', proof_err.log)


def replay(ctx, path):
    with open(path) as f:
        body = json.load(f)
    case = body['record'].get('case')
    builtin = regenerate(ctx)
    ctx.prove(PROP, extra_targets=['theories/C06/Corr.vo'])
    if case:
        o = run_impl('c06_impl.py', {'cases': [case]})
        print('implementation:', json.dumps(o[0]))
        bad = model_failing(ctx, 'replay', [case], o)
        print('model agrees' if not bad else 'model DISAGREES')
        if bad:
            ctx.report(classify(case, o[0]), {'case': case, 'implementation': o[0]}, 'replayed disagreement')
