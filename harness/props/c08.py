"""C08 — wrapped coroutines and generators are indistinguishable from the originals.  See DESIGN.md 5/C08.

proof:          coq/theories/Props/C08.v (C08/AGen.v protocol + wrapper, C08/Proofs.v bisimulation)
translator tie: Gen/C08Template.v: the asynchronous wrapper template is parsed and matched statement by statement against
                the control structure of the model; the synchronous one against `return (yield from ...)`
correspondence: table-driven generator bodies (finite automata: per state what next / send / each thrown exception does:
                yield-and-move, return, raise) built as real async generators, sync generators and coroutines; the
                original and the @beartype-decorated function are driven by the same operation sequences (next, send,
                throw of five exception classes, close; before start, suspended, after the end) and compared with each
                other (outcomes and the body's own action log) and, for async generators, with the model's [run]
"""
import json
import os
import subprocess

from harness.common import COQ, PY, VERIF, CoqFailure, coq_list, coqc_many, impl_env, parse_nat_list, run_impl, write_if_changed

PROP = 'theories/Props/C08.v'
HEADER = ('From Coq Require Import List Arith.\nFrom BT Require Import C08.AGen C08.Corr.\nImport ListNotations.\n')
THROWN = [0, 3, 4, 6, 7]    # GeneratorExit, ValueError, KeyError, KeyboardInterrupt, a BaseException subclass have table entries


def regenerate(ctx):
    p = subprocess.run([PY, os.path.join(VERIF, 'harness', 'translate', 'agentemplate.py')], capture_output=True, text=True, env=impl_env())
    if p.returncode != 0:
        raise CoqFailure('translator agentemplate.py', p.stdout[-1000:] + p.stderr[-3000:])
    write_if_changed(os.path.join(COQ, 'theories/Gen/C08Template.v'), p.stdout)


def gen_action(rng, nstates, allow_yield=True):
    r = rng.random()
    if allow_yield and r < 0.6:
        return ['yield', rng.randint(1, 9), rng.randrange(nstates)]
    if r < 0.8:
        return ['return']
    return ['raise', rng.choice([3, 4, 5, 0, 7])]


def gen_table(rng):
    n = rng.randint(1, 4)
    table = []
    for _ in range(n):
        row = {'next': gen_action(rng, n), 'send': gen_action(rng, n), 'throw': []}
        for e in THROWN:
            if rng.random() < 0.7:
                # a body never yields while handling GeneratorExit (the property's restriction)
                row['throw'].append([e, gen_action(rng, n, allow_yield=(e != 0))])
        table.append(row)
    table[0]['next'] = ['yield', rng.randint(1, 9), rng.randrange(n)] if rng.random() < 0.85 else table[0]['next']
    return table


def gen_ops(rng, manual_exit):
    ops = []
    for _ in range(rng.randint(1, 8)):
        r = rng.random()
        if r < 0.4:
            ops.append(['next'])
        elif r < 0.6:
            ops.append(['send', rng.choice([None, 5, 6, 0, 0])])     # 0: a sent value that is falsy is still a sent value
        elif r < 0.85:
            ops.append(['throw', rng.choice([3, 4, 5, 1, 6, 7] + ([0] if manual_exit else []))])
        else:
            ops.append(['close'])
    return ops


def coq_action(a):
    if a[0] == 'yield':
        return '(AYield %d %d)' % (a[1], a[2])
    if a[0] == 'return':
        return 'AReturn'
    return '(ARaise %d)' % a[1]


def coq_table(t):
    return coq_list(['{| on_next := %s; on_send := %s; on_throw := %s |}' % (
        coq_action(r['next']), coq_action(r['send']), coq_list(['(%d, %s)' % (e, coq_action(a)) for e, a in r['throw']])) for r in t])


def coq_op(o):
    if o[0] == 'next':
        return 'OpNext'
    if o[0] == 'send':
        return '(OpSend %s)' % ('None' if o[1] is None else '(Some %d)' % o[1])
    if o[0] == 'throw':
        return '(OpThrow %d)' % o[1]
    return 'OpClose'


def coq_outcome(o):
    k, v = o
    if k == 'yield':
        return '(OYield %d)' % v
    if k == 'stop':
        return 'OStop'
    if k == 'none':
        return 'ONone'
    if k == 'raise' and isinstance(v, int):
        return '(ORaise %d)' % v
    return None


def run(ctx):
    ctx.rule = ('generator bodies as finite automata of 1-4 states (per state: next, send and thrown GeneratorExit / ValueError / KeyError '
                'each yield-and-move, return or raise; other exceptions propagate; never a yield on GeneratorExit), as async generators '
                '(return annotated or only a parameter annotated), sync generators and coroutines; 1-8 operations per run among next, '
                'send(None | value, incl. the falsy 0), throw of 4 classes, close; a separate stream throws GeneratorExit by hand; non-trivial = >= 3 operations '
                'with a throw or close; distinct = distinct (table, operations)')
    ctx.assumptions += ['CPython\'s own `yield from` and `await` delegation (sync generators, coroutines) is compared, not modelled',
                        'yielded and sent values are small integers; the checks of yielded / returned values against the annotation are '
                        'C03/C04 matters']
    proof_err = None
    try:
        regenerate(ctx)
    except CoqFailure as e:
        proof_err = e          # the template no longer has the modelled shape: keep the last model and search
    try:
        if proof_err is not None:
            raise proof_err
        ctx.prove(PROP, extra_targets=['theories/C08/Corr.vo'])
    except CoqFailure as e:
        proof_err = e
        from harness.common import coq_make
        try:
            coq_make(['theories/C08/Corr.vo'])
        except CoqFailure as e2:
            ctx.broken('corr/c08 model does not build', e2.log)
            return
    failures = 0
    n = {'quick': 900, 'thorough': 30000}[ctx.tier]
    cases = []
    for i in range(n):
        manual = i % 7 == 6
        mode = 'async' if i % 3 != 2 else 'sync'
        cases.append({'mode': mode, 'table': gen_table(ctx.rng), 'ops': gen_ops(ctx.rng, manual), 'checked': ctx.rng.random() < 0.6,
                      'manual_exit': manual})
    cases += [{'mode': 'coroutine', 'spec': s, 'ann': a} for s in ('ok', 'bad', 'raise')
              for a in ('int', 'absent', 'NoReturn', 'Never', 'Optional[int]', 'Coroutine[int]', 'Coroutine[NoReturn]')]
    rows, index = [], []
    for lo in range(0, len(cases), 300):
        part = cases[lo:lo + 300]
        obs = run_impl('c08_impl.py', {'cases': part}, timeout=1200)
        for case, o in zip(part, obs):
            if case['mode'] == 'coroutine':
                ctx.case(case, True)
                ann = case['ann']
                conforms = {'ok': ann in ('int', 'absent', 'Optional[int]', 'Coroutine[int]'), 'bad': ann == 'absent', 'raise': True}[case['spec']]
                # the body runs exactly once and to the end either way; a conforming result (or the body's own exception) comes
                # back unchanged, anything else is a return violation raised after the body finished
                ok = (o['kind_same'] and o['orig_log'] == o['deco_log'] == ['start', 'resumed'] and
                      (o['deco'] == o['orig'] if conforms else o['deco'] == ['raise', 'BeartypeCallHintReturnViolation']))
                if not ok:
                    failures += 1
                    ctx.report({'clause': 'coroutine', 'spec': case['spec'], 'ann': ann}, {'case': case, 'observed': o},
                               'a decorated coroutine differs from the original')
                continue
            ops = case['ops']
            ctx.case([case['mode'], case['table'], ops, case['checked']], len(ops) >= 3 and any(x[0] in ('throw', 'close') for x in ops),
                     sample={'mode': case['mode'], 'table': case['table'], 'ops': ops, 'orig': o.get('orig'), 'deco': o.get('deco')})
            ctx.count('mode:' + case['mode'] + ('/checked' if case['checked'] else '/unchecked'))
            for x in ops:
                ctx.count('op:' + x[0])
            if not o.get('is_wrapper') or not o.get('kind_same'):
                failures += 1
                ctx.report({'clause': 'kind'}, {'case': case, 'observed': o}, 'the decorated function is not a wrapper of the same kind as reported by inspect')
                continue
            manual_exit_used = any(x == ['throw', 0] for x in ops)
            if o['orig'] != o['deco'] or o['orig_log'] != o['deco_log']:
                shape = {'clause': 'indistinguishable', 'mode': case['mode'], 'manual_generator_exit': manual_exit_used}
                if ctx.report(shape, {'case': case, 'observed': o}, 'the decorated generator differs from the original (outcomes or finalisation log)') == 'violation':
                    failures += 1
            if case['mode'] == 'async' and isinstance(o['orig'], list) and isinstance(o['deco'], list):
                a, b = [coq_outcome(x) for x in o['orig']], [coq_outcome(x) for x in o['deco']]
                if all(a) and all(b):
                    rows.append('{| g_table := %s; g_ops := %s; g_orig := %s; g_wrapped := %s |}' % (
                        coq_table(case['table']), coq_list([coq_op(x) for x in ops]), coq_list(a), coq_list(b)))
                    index.append((case, o))
                else:
                    failures += 1
                    ctx.report({'clause': 'unexpected_exception'}, {'case': case, 'observed': o}, 'an exception outside the modelled classes surfaced')
        if failures > 12:
            break
    shard, paths = 300, []
    for lo in range(0, len(rows), shard):
        text = HEADER + 'Definition cases : list gcase := %s.\nEval vm_compute in (gfailing cases).\n' % coq_list(
            ['\n ' + r for r in rows[lo:lo + shard]])
        path = os.path.join(ctx.workdir, f'c08_{lo}.v')
        with open(path, 'w') as f:
            f.write(text)
        paths.append(path)
    for si, out in enumerate(coqc_many(paths, jobs=8)):
        for j in parse_nat_list(out)[:3]:
            failures += 1
            case, o = index[si * shard + j]
            ctx.report({'clause': 'correspondence'}, {'case': case, 'observed': o},
                       'the protocol / wrapper model (C08/AGen.v) and CPython / beartype disagree')
    # wrappers of another kind than what they wrap (a coroutine / generator / async generator / plain functools.wraps wrapper
    # around a plain function, a generator, a coroutine, an async generator): the decorated wrapper is of the wrapper's kind
    try:
        xrows = run_impl('c08_crosskind.py', {}, timeout=300)
    except Exception as e:  # noqa
        xrows = [{'error': str(e)[-600:], 'wrapper': 'crash', 'inner': ''}]
    ctx.evaluations += len(xrows)
    ctx.extra['cross_kind_rows'] = len(xrows)
    for r in xrows:
        if 'error' in r or r['kind_undecorated'] != r['kind_decorated'] or r['undecorated'] != r['decorated']:
            failures += 1
            ctx.report({'clause': 'cross_kind_wrapper', 'wrapper': r.get('wrapper'), 'inner': r.get('inner')}, r,
                       'a decorated wrapper around a callable of another kind differs from the undecorated wrapper')
            if failures > 12:
                break
    if proof_err is not None and not failures:
        ctx.broken(f'{PROP} ({proof_err.what})', proof_err.log)


def replay(ctx, path):
    with open(path) as f:
        body = json.load(f)
    case = body['record'].get('case')
    if body['record'].get('wrapper') and 'inner' in body['record']:
        for r in run_impl('c08_crosskind.py', {}, timeout=300):
            if r.get('wrapper') == body['record']['wrapper'] and r.get('inner') == body['record']['inner']:
                print(json.dumps(r))
                if 'error' in r or r['kind_undecorated'] != r['kind_decorated'] or r['undecorated'] != r['decorated']:
                    ctx.report(body.get('shape') or {'clause': 'cross_kind_wrapper'}, r, 'the wrapper still differs')
        return
    if case:
        print(json.dumps(run_impl('c08_impl.py', {'cases': [case]})[0])[:3000])
