"""C16 — hooked and unhooked bytecode caches never mix; cached bytecode is never stale.  See DESIGN.md 5/C16.

proof:          coq/theories/Props/C16.v (C16/Cache.v, C16/Proofs.v)
translator tie: the loader's source is scanned for the steps the concurrent model assumes (global patched before
                super().get_code, restored in a finally) and the marker for its (in)dependence on the configuration
correspondence: generated sequences of real interpreter runs (fresh processes, bytecode writing enabled) over one
                source tree: hook off / on with claw_is_pep526 on/off and a custom violation type, source edits between
                runs; each run reports what the loaded module does (version, function checked?, PEP 526 checked?,
                exception class) and which cache files exist, compared with the model's [runs]; plus the paused-import
                race scenario
"""
import json
import os
import re
import shutil
import subprocess
from concurrent.futures import ThreadPoolExecutor

from harness.common import PY, REPO, VERIF, CoqFailure, coq_list, coqc_many, parse_nat_list

PROP = 'theories/Props/C16.v'
HEADER = ('From Coq Require Import List Arith.\nFrom BT Require Import C16.Cache C16.Corr.\nImport ListNotations.\n')

MODULE = '''VERSION = %d
def f(a: int):
    return a
try:
    x: int = 'bad'
    PEP526 = False
except Exception as e:
    PEP526 = type(e).__name__
'''


def regenerate(ctx):
    pass


def env_for(root):
    env = dict(os.environ)
    env.pop('PYTHONDONTWRITEBYTECODE', None)
    env['PYTHONPATH'] = REPO + os.pathsep + root
    env['PYTHONHASHSEED'] = '0'
    env.pop('PYTHONPYCACHEPREFIX', None)
    return env


def write_source(root, pkg, version):
    d = os.path.join(root, pkg)
    os.makedirs(d, exist_ok=True)
    with open(os.path.join(d, '__init__.py'), 'w') as f:
        f.write('')
    p = os.path.join(d, 'mod.py')
    with open(p, 'w') as f:
        f.write(MODULE % version)
    dv = os.path.join(d, 'vend')                 # a sub-package that some configurations skip
    os.makedirs(dv, exist_ok=True)
    with open(os.path.join(dv, '__init__.py'), 'w') as f:
        f.write('')
    pv = os.path.join(dv, 'mod.py')
    with open(pv, 'w') as f:
        f.write(MODULE % version)
    with open(os.path.join(d, 'bad.py'), 'w') as f:
        f.write('def (:\n')                  # never compiles; imported only by the runs that say so, inside try/except
    t = 1_600_000_000 + 100 * version
    os.utime(p, (t, t))
    os.utime(pv, (t, t))
    os.utime(os.path.join(dv, '__init__.py'), (1_600_000_000, 1_600_000_000))
    os.utime(os.path.join(d, '__init__.py'), (1_600_000_000, 1_600_000_000))


def run_process(root, spec, nowrite=False):
    spec = dict(spec, root=root)
    env = env_for(root)
    if nowrite:
        env['PYTHONDONTWRITEBYTECODE'] = '1'     # this interpreter reads the cache files that exist and writes none
    p = subprocess.run([PY, os.path.join(VERIF, 'harness', 'impl', 'c16_run.py'), json.dumps(spec)], capture_output=True,
                       text=True, env=env, timeout=120)
    lines = [l for l in p.stdout.splitlines() if l.startswith('{')]
    if p.returncode != 0 or not lines:
        return {'crash': p.stderr[-800:]}
    return json.loads(lines[-1])


def run_sequence(workdir, idx, seq):
    """seq: list of {'hook': None|{'pep526','violation'}, 'version': n}; returns the per-run observations"""
    root = os.path.join(workdir, f'tree{idx}')
    shutil.rmtree(root, ignore_errors=True)
    os.makedirs(root)
    out = []
    cur = None
    for r in seq:
        if r['version'] != cur:
            write_source(root, 'c16pkg', r['version'])
            cur = r['version']
        out.append(run_process(root, {'hook': r['hook'], 'pkg': 'c16pkg'}, nowrite=bool(r.get('nowrite'))))
    shutil.rmtree(root, ignore_errors=True)
    return out


def run_multi(workdir, idx, seq):
    """seq: list of {'hooks': {'c16pkg': hook, 'c16oth': hook}, 'version': n}: both packages imported in every run"""
    root = os.path.join(workdir, f'multi{idx}')
    shutil.rmtree(root, ignore_errors=True)
    os.makedirs(root)
    out, cur = [], None
    for r in seq:
        if r['version'] != cur:
            for p in ('c16pkg', 'c16oth'):
                write_source(root, p, r['version'])
            cur = r['version']
        spec = {'hooks': r['hooks'], 'pkgs': ['c16pkg', 'c16oth']}
        if r.get('broken'):
            # the failing import of c16pkg.bad comes first, then the other package, then c16pkg itself
            spec = {'hooks': r['hooks'], 'pkgs': ['c16oth', 'c16pkg'], 'broken': 'c16pkg'}
        out.append(run_process(root, spec))
    shutil.rmtree(root, ignore_errors=True)
    return out


def run_skip(workdir, idx, seq):
    """seq: list of {'hook': None | {..., 'skip': bool}, 'version': n}: the package and its vendored sub-package imported in every run"""
    root = os.path.join(workdir, f'skip{idx}')
    shutil.rmtree(root, ignore_errors=True)
    os.makedirs(root)
    out, cur = [], None
    for r in seq:
        if r['version'] != cur:
            write_source(root, 'c16pkg', r['version'])
            cur = r['version']
        out.append(run_process(root, {'hook': r['hook'], 'pkg': 'c16pkg', 'pkgs': ['c16pkg', 'c16pkg.vend']}))
    shutil.rmtree(root, ignore_errors=True)
    return out


def gen_skip(rng):
    seq, version = [], 1
    for _ in range(rng.randint(2, 4)):
        if rng.random() < 0.2:
            version += 1
        seq.append({'hook': None if rng.random() < 0.25 else {'pep526': True, 'violation': None, 'skip': rng.random() < 0.5}, 'version': version})
    return seq


def gen_multi(rng):
    seq, version = [], 1
    for _ in range(rng.randint(2, 4)):
        if rng.random() < 0.2:
            version += 1
        hk = lambda: None if rng.random() < 0.4 else {'pep526': True, 'violation': None}  # noqa: E731
        seq.append({'hooks': {'c16pkg': hk(), 'c16oth': hk()}, 'version': version, 'broken': rng.random() < 0.4})
    return seq


def race_scenario(workdir):
    root = os.path.join(workdir, 'race')
    shutil.rmtree(root, ignore_errors=True)
    os.makedirs(root)
    write_source(root, 'hookedpkg', 1)
    write_source(root, 'otherpkg', 1)
    first = run_process(root, {'hook': {'pep526': True, 'violation': None}, 'pkg': 'hookedpkg', 'race': {'unhooked_pkg': 'otherpkg'}})
    # a later process hooks the package that was imported unhooked during the race
    second = run_process(root, {'hook': {'pep526': True, 'violation': None}, 'pkg': 'otherpkg'})
    shutil.rmtree(root, ignore_errors=True)
    return first, second


def gen_sequence(rng):
    seq, version = [], 1
    for _ in range(rng.randint(2, 5)):
        if rng.random() < 0.25:
            version += 1
        r = rng.random()
        if r < 0.3:
            hook = None
        else:
            hook = {'pep526': rng.random() < 0.6, 'violation': 'C16Violation' if rng.random() < 0.3 else None}
        seq.append({'hook': hook, 'version': version})
        if rng.random() < 0.3:
            seq[-1]['nowrite'] = True
    return seq


def coq_run(r):
    h = r['hook']
    hk = 'None' if h is None else '(Some {| akey := %d; rkey := %d |})' % (1 if h['pep526'] else 0, 1 if h['violation'] else 0)
    return '(%s, %d, %s)' % (hk, r['version'], 'false' if r.get('nowrite') else 'true')


def coq_obs(o):
    """observation -> the code kind it reveals"""
    ob = o.get('obs') or {}
    if 'version' not in ob:
        return None
    if ob['func_checked']:
        return '(CBear %d %d)' % (1 if ob['pep526'] else 0, ob['version'])
    return '(CPlain %d)' % ob['version'] if not ob['pep526'] else None


def loader_steps_as_modelled():
    """the order of the loader's steps the concurrent model assumes, read off the source"""
    src = open(os.path.join(REPO, 'beartype/claw/_importlib/_clawimpfileloader.py')).read()
    body = src[src.index('def get_code('):src.index('def source_to_code(')]
    code = '\n'.join(l for l in body.splitlines() if not l.strip().startswith('#'))
    i_set = code.find('_bootstrap_external.cache_from_source = cache_from_source_beartype')
    i_try = code.find('try:', i_set)
    i_super = code.find('return super().get_code(fullname)', i_try)
    i_fin = code.find('finally:', i_super)
    i_restore = code.find('_bootstrap_external.cache_from_source = (', i_fin)
    locked = bool(re.search(r'\bwith\s+\w*[Ll]ock', code))
    marker = open(os.path.join(REPO, 'beartype/_data/claw/dataclawmagic.py')).read()
    marker_code = '\n'.join(l for l in marker.splitlines() if l.startswith('OPTIMIZATION_MARKER_BEARTYPE'))
    return {'order_ok': 0 <= i_set < i_try < i_super < i_fin < i_restore, 'serialised_by_lock': locked,
            'marker_mentions_conf': 'conf' in marker_code.lower(), 'marker_expr': marker_code[:200]}


def run(ctx):
    ctx.rule = ('sequences of 2-5 real interpreter runs over one source tree: per run hook off (30%) or on with claw_is_pep526 on/off '
                'and default / custom violation type; the source is edited (new version, new mtime) before 25% of the runs; every '
                'run is a fresh process with bytecode writing enabled; plus one paused-import race scenario; non-trivial = the '
                'sequence changes hook state or configuration at least once; distinct = distinct sequence')
    ctx.assumptions += ['CPython\'s own pyc validation (mtime + size) is taken as given: sources are always rewritten with a new mtime',
                        'one module per package; packages nested deeper and namespace packages are not exercised',
                        'the concurrent model has the granularity of the loader\'s four steps; CPython\'s import locks are not modelled']
    proof_err = None
    try:
        ctx.prove(PROP, extra_targets=['theories/C16/Corr.vo'])
    except CoqFailure as e:
        proof_err = e
        from harness.common import coq_make
        try:
            coq_make(['theories/C16/Corr.vo'])
        except CoqFailure as e2:
            ctx.broken('corr/c16 model does not build', e2.log)
            return
    failures = 0
    steps = loader_steps_as_modelled()
    ctx.extra['loader_steps'] = steps
    n = {'quick': 40, 'thorough': 1200}[ctx.tier]
    seqs = [[{'hook': {'pep526': True, 'violation': None}, 'version': 1}, {'hook': {'pep526': False, 'violation': None}, 'version': 1}],
            [{'hook': {'pep526': False, 'violation': None}, 'version': 1}, {'hook': {'pep526': True, 'violation': None}, 'version': 1}],
            [{'hook': {'pep526': True, 'violation': None}, 'version': 1}, {'hook': None, 'version': 1},
             {'hook': {'pep526': True, 'violation': 'C16Violation'}, 'version': 1}, {'hook': None, 'version': 2}]]
    seqs += [gen_sequence(ctx.rng) for _ in range(n)]
    with ThreadPoolExecutor(max_workers=12) as ex:
        obs = list(ex.map(lambda t: run_sequence(ctx.workdir, t[0], t[1]), enumerate(seqs)))
    rows, index = [], []
    for seq, os_ in zip(seqs, obs):
        states = {json.dumps(r['hook']) for r in seq}
        ctx.case(seq, len(states) > 1, sample={'runs': seq, 'observed': [o.get('obs') for o in os_]})
        ctx.evaluations += len(seq) - 1
        for r in seq:
            ctx.count('hook:' + ('off' if r['hook'] is None else 'pep526=%s' % r['hook']['pep526']))
        if any('crash' in o or 'import_error' in (o.get('obs') or {}) for o in os_):
            failures += 1
            ctx.report({'clause': 'run_crashed'}, {'runs': seq, 'observed': os_}, 'an interpreter run crashed')
            continue
        # the property, directly: each run behaves like the current configuration applied to the current source
        for i, (r, o) in enumerate(zip(seq, os_)):
            ob = o['obs']
            want_checked = r['hook'] is not None
            want_526 = bool(r['hook'] and r['hook']['pep526'])
            want_exc = None if not want_checked else ('C16Violation' if r['hook']['violation'] else 'BeartypeCallHintParamViolation')
            problems = []
            if ob['version'] != r['version']:
                problems.append(('stale_source', 'the loaded module is not the current source'))
            if ob['func_checked'] != want_checked:
                problems.append(('mixed', 'hooked bytecode in an unhooked run or the reverse'))
            if want_checked and ob['func_checked'] and bool(ob['pep526']) != want_526:
                problems.append(('stale_conf_pep526', 'PEP 526 checks %s although the current configuration says otherwise'
                                 % ('added' if ob['pep526'] else 'dropped')))
            if want_checked and ob['func_checked'] and ob.get('exc') != want_exc:
                problems.append(('wrong_violation_class', f'raised {ob.get("exc")} instead of {want_exc}'))
            # cache files: marked ones only for hooked runs
            for name in o['pyc'].get('c16pkg', []):
                marked = 'beartype' in name
                if marked != want_checked and i == 0:
                    problems.append(('cache_file_name', f'first run wrote {name}'))
            for kind, what in problems[:1]:
                if ctx.report({'clause': kind}, {'runs': seq, 'index': i, 'observed': os_}, what) == 'violation':
                    failures += 1
        if all(coq_obs(o) for o in os_):
            rows.append('{| s_runs := %s; s_obs := %s |}' % (coq_list([coq_run(r) for r in seq]), coq_list([coq_obs(o) for o in os_])))
            index.append((seq, os_))
    shard, paths = 200, []
    for lo in range(0, len(rows), shard):
        text = HEADER + 'Definition cases : list scase := %s.\nEval vm_compute in (sfailing cases).\n' % coq_list(
            ['\n ' + r for r in rows[lo:lo + shard]])
        path = os.path.join(ctx.workdir, f'c16_{lo}.v')
        with open(path, 'w') as f:
            f.write(text)
        paths.append(path)
    for si, out in enumerate(coqc_many(paths, jobs=8)):
        for j in parse_nat_list(out)[:3]:
            failures += 1
            seq, os_ = index[si * shard + j]
            ctx.report({'clause': 'correspondence'}, {'runs': seq, 'observed': os_}, 'the cache model (C16/Cache.v runs) and the interpreter runs disagree')
    # a sub-package skipped by some configurations and not by others: its modules are cached as what they are in each run
    hk_s = {'pep526': True, 'violation': None, 'skip': True}
    hk_n = {'pep526': True, 'violation': None, 'skip': False}
    sseqs = [[{'hook': hk_s, 'version': 1}, {'hook': hk_n, 'version': 1}], [{'hook': hk_n, 'version': 1}, {'hook': hk_s, 'version': 1}],
             [{'hook': None, 'version': 1}, {'hook': hk_s, 'version': 1}, {'hook': hk_n, 'version': 1}, {'hook': None, 'version': 1}]]
    sseqs += [gen_skip(ctx.rng) for _ in range({'quick': 8, 'thorough': 200}[ctx.tier])]
    with ThreadPoolExecutor(max_workers=12) as ex:
        sobs = list(ex.map(lambda t: run_skip(ctx.workdir, t[0], t[1]), enumerate(sseqs)))
    for seq, os_ in zip(sseqs, sobs):
        ctx.case(['skip', seq], True)
        ctx.evaluations += 2 * len(seq) - 1
        ctx.count('skipped_subpackage')
        if any('crash' in o for o in os_):
            failures += 1
            ctx.report({'clause': 'run_crashed'}, {'runs': seq, 'observed': os_}, 'an interpreter run crashed')
            continue
        for i, (r, o) in enumerate(zip(seq, os_)):
            want = {'c16pkg': r['hook'] is not None, 'c16pkg.vend': r['hook'] is not None and not r['hook'].get('skip')}
            bad = [p_ for p_ in want if 'import_error' in o['obs_multi'][p_] or o['obs_multi'][p_].get('func_checked') != want[p_] or
                   o['obs_multi'][p_].get('version') != r['version']]
            if bad:
                failures += 1
                ctx.report({'clause': 'mixed_skipped_subpackage', 'package': bad[0]}, {'runs': seq, 'index': i, 'observed': [x.get('obs_multi') for x in os_]},
                           'with a sub-package skipped in some runs and hooked in others a module was loaded from the wrong cache')
                break
    # two packages hooked independently, both imported in every run (the patched global must not outlive one import)
    mseqs = [[{'hooks': {'c16pkg': {'pep526': True, 'violation': None}, 'c16oth': None}, 'version': 1}] * 2 +
             [{'hooks': {'c16pkg': {'pep526': True, 'violation': None}, 'c16oth': {'pep526': True, 'violation': None}}, 'version': 1}],
             [{'hooks': {'c16pkg': {'pep526': True, 'violation': None}, 'c16oth': {'pep526': True, 'violation': None}}, 'version': 1},
              {'hooks': {'c16pkg': {'pep526': True, 'violation': None}, 'c16oth': None}, 'version': 1}]]
    hk1 = {'pep526': True, 'violation': None}
    mseqs += [[{'hooks': {'c16pkg': hk1, 'c16oth': None}, 'version': 1, 'broken': True}, {'hooks': {'c16pkg': hk1, 'c16oth': hk1}, 'version': 1}],
              [{'hooks': {'c16pkg': hk1, 'c16oth': hk1}, 'version': 1}, {'hooks': {'c16pkg': hk1, 'c16oth': None}, 'version': 1, 'broken': True}]]
    mseqs += [gen_multi(ctx.rng) for _ in range({'quick': 14, 'thorough': 400}[ctx.tier])]
    with ThreadPoolExecutor(max_workers=12) as ex:
        mobs = list(ex.map(lambda t: run_multi(ctx.workdir, t[0], t[1]), enumerate(mseqs)))
    mrows, mindex = [], []
    for seq, os_ in zip(mseqs, mobs):
        ctx.case(['multi', seq], True, sample={'runs': seq, 'observed': [o.get('obs_multi') for o in os_]})
        ctx.evaluations += 2 * len(seq) - 1
        ctx.count('two_packages')
        if any('crash' in o for o in os_):
            failures += 1
            ctx.report({'clause': 'run_crashed'}, {'runs': seq, 'observed': os_}, 'an interpreter run crashed')
            continue
        for pkg in ('c16pkg', 'c16oth'):
            obs_p = [{'obs': o['obs_multi'][pkg]} for o in os_]
            runs_p = [{'hook': r['hooks'][pkg], 'version': r['version']} for r in seq]
            for i, (r, o) in enumerate(zip(runs_p, obs_p)):
                ob = o['obs']
                want = r['hook'] is not None
                if 'import_error' in ob or ob.get('func_checked') != want or ob.get('version') != r['version']:
                    failures += 1
                    ctx.report({'clause': 'mixed_two_packages', 'package': pkg, 'import_error': 'import_error' in ob},
                               {'runs': seq, 'index': i, 'package': pkg, 'observed': [x.get('obs_multi') for x in os_]},
                               'with two independently hooked packages a module was loaded from the wrong cache '
                               '(checked where unhooked, unchecked where hooked, or unimportable)')
                    break
            if all(coq_obs(o) for o in obs_p):
                mrows.append('{| s_runs := %s; s_obs := %s |}' % (coq_list([coq_run(r) for r in runs_p]), coq_list([coq_obs(o) for o in obs_p])))
                mindex.append((seq, os_))
    paths = []
    for lo in range(0, len(mrows), 200):
        text = HEADER + 'Definition cases : list scase := %s.\nEval vm_compute in (sfailing cases).\n' % coq_list(
            ['\n ' + r for r in mrows[lo:lo + 200]])
        path = os.path.join(ctx.workdir, f'c16_multi_{lo}.v')
        with open(path, 'w') as f:
            f.write(text)
        paths.append(path)
    for si, out in enumerate(coqc_many(paths, jobs=8)):
        for j in parse_nat_list(out)[:3]:
            failures += 1
            seq, os_ = mindex[si * 200 + j]
            ctx.report({'clause': 'correspondence_two_packages'}, {'runs': seq, 'observed': [x.get('obs_multi') for x in os_]},
                       'the cache model and the interpreter runs disagree (two packages)')
    # the race
    first, second = race_scenario(ctx.workdir)
    ctx.evaluations += 2
    ctx.extra['race_scenario'] = {'first': first, 'second': second}
    ob2 = (second.get('obs') or {})
    marked_unhooked = [f for f in (first.get('pyc') or {}).get('otherpkg', []) if 'beartype' in f]
    if 'crash' in first or 'crash' in second:
        failures += 1
        ctx.report({'clause': 'race_crashed'}, {'first': first, 'second': second}, 'the race scenario crashed')
    elif marked_unhooked or ob2.get('func_checked') is False:
        if ctx.report({'clause': 'race', 'dropped_checks': ob2.get('func_checked') is False},
                      {'first': first, 'second': second, 'marked_cache_of_unhooked_module': marked_unhooked},
                      'an unhooked import concurrent with a hooked one wrote untransformed bytecode under beartype\'s marker; '
                      'a later hooked run loads it and drops its checks') == 'violation':
            failures += 1
    if not steps['order_ok'] and not failures:
        ctx.broken('translator/loader_steps: get_code no longer has the shape patch-global / try super().get_code / finally restore',
                   json.dumps(steps), shape={'broken': 'loader_steps'})
        failures += 1
    if proof_err is not None and not failures:
        ctx.broken(f'{PROP} ({proof_err.what})', proof_err.log)


def replay(ctx, path):
    with open(path) as f:
        body = json.load(f)
    r = body['record']
    if 'runs' in r:
        os.makedirs(ctx.workdir, exist_ok=True)
        print(json.dumps(run_sequence(ctx.workdir, 0, r['runs'])))
