"""C18 — hint-rewriting options behave exactly like rewriting the hints by hand.  See DESIGN.md 5/C18.

proof:          coq/theories/Props/C18.v (Core/Override.v effective/subst1, Core/OverrideProofs.v)
translator tie: shared core (Gen/{ClassTable,SignSets,Templates}.v); the configuration attributes read by the
                code-generation path are scanned (violation_* options must not be among them)
correspondence: hints with override keys injected at every depth x stable / chained overrides x tower:
                beartype under BeartypeConf(hint_overrides=..., is_pep484_tower=...) against the model's
                [effective] (verdict, protocol trace, generated code structure), against the same check under
                the default configuration with the hints rewritten by hand in Python (independent rewriting),
                and under every violation_* option (verdict must not move)
"""
import ast
import json
import os

from harness import corecorr as C
from harness import coreir as IR
from harness.common import REPO, CoqFailure
from harness.props import c01
from harness.translate.run import regenerate_core

PROP = 'theories/Props/C18.v'

TOWER = [[['cls', 'float'], ['union', [['cls', 'float'], ['cls', 'int']]]],
         [['cls', 'complex'], ['union', [['cls', 'complex'], ['cls', 'float'], ['cls', 'int']]]]]
KEY_CLASSES = ['float', 'complex', 'int', 'str', 'UserA', 'bytes']
OTHER_CLASSES = ['bool', 'UserB', 'UserC', 'NoneType', 'bytes', 'str', 'int', 'float']


def regenerate(ctx):
    regenerate_core()


def conf_reads():
    """names of BeartypeConf attributes read anywhere on the code-generation / reduction path"""
    roots = ['beartype/_check/code', 'beartype/_check/convert', 'beartype/_check/cls/logic',
             'beartype/_check/checkmake.py', 'beartype/_check/cls/hint']
    names = set()
    for r in roots:
        p = os.path.join(REPO, r)
        files = [p] if p.endswith('.py') else [os.path.join(d, f) for d, _, fs in os.walk(p) for f in fs if f.endswith('.py')]
        for f in files:
            with open(f) as fh:
                tree = ast.parse(fh.read())
            for n in ast.walk(tree):
                if isinstance(n, ast.Attribute) and isinstance(n.value, ast.Name) and n.value.id in ('conf', 'self_conf'):
                    names.add((n.attr, os.path.relpath(f, REPO)))
                if isinstance(n, ast.Attribute) and isinstance(n.value, ast.Attribute) and n.value.attr == 'conf':
                    names.add((n.attr, os.path.relpath(f, REPO)))
    return names


def subst_ir(ov, h):
    """one simultaneous rewriting pass over the hint IR, written independently of the Coq model"""
    for k, v in ov:
        if k == h:
            return v
    t = h[0]
    rec = lambda x: subst_ir(ov, x)  # noqa: E731
    if t == 'union':
        return ['union', [rec(x) for x in h[1]]]
    if t == 'optional':
        return ['optional', rec(h[1])]
    if t == 'cont':
        return ['cont', h[1], rec(h[2])]
    if t == 'map':
        return ['map', h[1], rec(h[2]), rec(h[3])]
    if t == 'counter':
        return ['counter', rec(h[1])]
    if t == 'tuplefixed':
        return ['tuplefixed', [rec(x) for x in h[1]]]
    if t == 'annot':
        return ['annot', rec(h[1]), h[2]]
    if t in ('meta', 'newtype', 'tvar_bound'):
        return [t, rec(h[1])]
    if t == 'tvar_constr':
        return [t, [rec(x) for x in h[1]]]
    if t == 'type':
        out = []
        for c in h[1]:
            v = rec(['cls', c])
            cs = [v[1]] if v[0] == 'cls' else [x[1] for x in v[1]] if v[0] == 'union' and all(x[0] == 'cls' for x in v[1]) else [c]
            out += [x for x in cs if x not in out]
        return ['type', out]
    return h


def inject(rng, h, keys, p=0.5):
    """replace class leaves of a generated hint by override keys, at every depth"""
    t = h[0]
    rec = lambda x: inject(rng, x, keys, p)  # noqa: E731
    if t == 'cls' and rng.random() < p:
        return rng.choice(keys)
    if t == 'union':
        kids = []
        for x in h[1]:
            y = rec(x)
            if y not in kids:
                kids.append(y)
        return ['union', kids] if len(kids) > 1 else kids[0]
    if t == 'optional':
        return ['optional', rec(h[1])]
    if t == 'cont':
        return ['cont', h[1], rec(h[2])]
    if t == 'map':
        k = rec(h[2])
        return ['map', h[1], k if IR_hashable_key(k) else h[2], rec(h[3])]
    if t == 'counter':
        return h
    if t == 'tuplefixed':
        return ['tuplefixed', [rec(x) for x in h[1]]]
    if t == 'type' and h[1] and rng.random() < p:
        ks = [k[1] for k in keys if k[0] == 'cls']
        return ['type', [rng.choice(ks)]] if ks else h
    return h


def sibling_shape(rng, keys):
    """unions whose members mention one key at different depths and positions (the recursion guard of one member
    must not leak into its siblings), possibly below a container"""
    k = rng.choice(keys)
    other = rng.choice([['cls', 'UserC'], ['cls', 'NoneType'], ['cont', 'Set', ['cls', 'bool']]])
    nest = lambda x: rng.choice([['cont', 'List', x], ['cont', 'Tuple', x], ['cont', 'Sequence', x],  # noqa: E731
                                 ['map', 'Dict', ['cls', 'str'], x], ['tuplefixed', [x, ['cls', 'str']]],
                                 ['cont', 'List', ['cont', 'List', x]]])
    members = rng.choice([[nest(k), k], [k, nest(k)], [nest(k), k, other], [other, nest(k), k], [nest(k), nest(k), k],
                          [nest(k), other, k, nest(rng.choice(keys))]])
    uniq = []
    for m in members:
        if m not in uniq:
            uniq.append(m)
    u = ['union', uniq] if len(uniq) > 1 else uniq[0]
    return rng.choice([u, u, ['cont', 'List', u], ['map', 'Dict', ['cls', 'str'], u], ['tuplefixed', [u, ['cls', 'int']]]])


def IR_hashable_key(k):
    return k[0] == 'cls' and k[1] in ('int', 'str', 'float', 'bytes', 'bool', 'UserA', 'NoneType', 'complex')


def type_args_ok(h, ov):
    """every class under type[...] is rewritten to a class or a union of classes (transitively)"""
    def classy(v, depth=0):
        if v[0] == 'cls':
            nxt = [b for a, b in ov if a == v]
            return depth > 3 or not nxt or nxt[0] == v or classy(nxt[0], depth + 1) or mentions(nxt[0], [v])
        return v[0] == 'union' and all(x[0] == 'cls' for x in v[1])
    if h[0] == 'type':
        # follow chained replacements (float -> float | int under the tower, then int -> List[int]): every class reached must be
        # rewritten to classes only
        todo, seen = [['cls', c] for c in h[1]], []
        while todo:
            k = todo.pop()
            if k in seen:
                continue
            seen.append(k)
            for a, b in ov:
                if a == k:
                    if b[0] == 'cls':
                        todo.append(b)
                    elif b[0] == 'union' and all(x[0] == 'cls' for x in b[1]):
                        todo += b[1]
                    else:
                        return False
        return True
    kids = {'union': lambda: h[1], 'optional': lambda: [h[1]], 'cont': lambda: [h[2]], 'map': lambda: [h[2], h[3]],
            'counter': lambda: [h[1]], 'tuplefixed': lambda: h[1], 'annot': lambda: [h[1]]}.get(h[0], lambda: [])()
    return all(type_args_ok(k, ov) for k in kids)


def mentions(h, keys):
    s = json.dumps(h)
    return any(json.dumps(k) in s for k in keys)


def gen_overrides(rng, tower, stable):
    """(ov, keys): user overrides; stable = no replacement mentions a key other than its own"""
    pool = [['cls', c] for c in KEY_CLASSES]
    if rng.random() < 0.25:
        pool.append(['cont', 'List', ['cls', 'int']])
    if tower:
        pool = [k for k in pool if k not in (['cls', 'float'], ['cls', 'complex'])]
        if stable:
            pool = [k for k in pool if k != ['cls', 'int']]      # the tower's replacements mention int
    rng.shuffle(pool)
    keys = pool[:rng.choice([0, 1, 1, 2, 2, 3]) if tower else rng.choice([1, 1, 2, 2, 3])]
    allkeys = keys + ([t[0] for t in TOWER] if tower else [])
    ov = []
    for a in keys:
        others = [['cls', c] for c in OTHER_CLASSES if ['cls', c] != a]
        if stable:
            others = [o for o in others if o not in allkeys]
        else:
            others += [k for k in allkeys if k != a and k[0] == 'cls']
        rng.shuffle(others)
        kind = rng.choice(['widen', 'widen', 'widen', 'swap', 'object', 'nest', 'optional', 'tuple'])
        if kind == 'widen':
            v = ['union', [a] + others[:rng.choice([1, 1, 2])]]
        elif kind == 'swap':
            v = others[0]
        elif kind == 'object':
            v = ['any', 'object']
        elif kind == 'nest':
            v = ['cont', rng.choice(['List', 'Set', 'Sequence']), a] if a[0] == 'cls' else others[0]
        elif kind == 'optional':
            v = ['optional', a]
        else:
            v = ['tuplefixed', [a, others[0]]]
        if v == a:
            v = others[0]
        ov.append([a, v])
    return ov, allkeys


def gen_cases(rng, n, depth, entries, stable_share=0.75):
    cases = []
    while len(cases) < n:
        tower = rng.random() < 0.45
        stable = rng.random() < stable_share
        ov, allkeys = gen_overrides(rng, tower, stable)
        if not allkeys:
            continue
        full = ov + (TOWER if tower else [])
        if not stable and not any(mentions(v, [k for k in allkeys if k != a]) for a, v in full):
            stable = True      # nothing chained after all
        if stable and any(mentions(v, [k for k in allkeys if k != a]) for a, v in full):
            # e.g. {List[int]: List[int] | str, int: object}: the replacement of one key mentions another key
            stable = False
        if stable and tower and any(mentions(v, [t[0] for t in TOWER] + [['cls', 'int']]) and a != ['cls', 'int'] for a, v in ov):
            # a user replacement mentioning float/complex/int under the tower is chained
            stable = False
        for _ in range(3):
            if rng.random() < 0.3:
                h = sibling_shape(rng, allkeys)
            else:
                # mostly one key per hint, so that the same key recurs at several places and depths
                h = inject(rng, IR.gen_hint(rng, rng.choice([1, 2, 2, 3, depth])),
                           allkeys if rng.random() < 0.4 else [rng.choice(allkeys)], p=0.7)
            if h[0] == 'annot' or not mentions(h, allkeys):
                h = rng.choice([rng.choice(allkeys), ['cont', 'List', rng.choice(allkeys)],
                                ['map', 'Dict', ['cls', 'str'], rng.choice(allkeys)],
                                ['tuplefixed', [rng.choice(allkeys), ['cls', 'str']]]])
            if not type_args_ok(h, full):
                continue        # type[K] with K rewritten to something that is not a class: outside the model
            if '"counter"' in json.dumps(h) and any(k == ['cls', 'int'] for k, _ in full):
                continue        # Counter[K] is reduced to a mapping whose values are int: F56 (probed separately in run())
            hand = subst_ir(full, h)
            conf = {'tower': tower, 'ov': ov}
            if tower and rng.random() < 0.3:
                # the user restates one or both of the tower's own entries: the configuration means the same
                conf['ov_restated'] = rng.choice([[TOWER[0]], [TOWER[1]], TOWER])
            vals = []
            try:
                good = IR.gen_sat(rng, hand)
                vals = [good, IR.mutate(rng, good), IR.gen_sat(rng, h)]
                vals.append(IR.mutate(rng, vals[2]))
            except Exception:  # noqa  (a rewritten hint the value generator cannot satisfy, e.g. nested sets of lists)
                continue
            for v in vals:
                if not IR.valid_value(v):
                    continue
                c = {'hint': h, 'value': v, 'draws': sorted({0, 1, rng.randrange(0, 7), rng.getrandbits(32)}),
                     'is_random': rng.random() < 0.8, 'entries': list(entries), 'conf': conf, 'stable': stable}
                if stable:
                    c['hand_hint'] = hand
                cases.append(c)
    return cases[:n]


def gen_wide_cases(rng, n, entries):
    """a key replaced by a union that is *wider* than the union the key sits in (Optional[A] with {A: A | B | C | D}): the
    flattening of the nested union must keep every member; one conforming object per member"""
    cases = []
    while len(cases) < n:
        a = ['cls', rng.choice(['str', 'UserA', 'bytes', 'float'])]
        others = [['cls', c] for c in ['UserB', 'UserC', 'bool', 'int', 'complex'] if ['cls', c] != a]
        rng.shuffle(others)
        members = [a] + others[:rng.choice([2, 3, 3])]
        if rng.random() < 0.3:
            rng.shuffle(members)
        ov = [[a, ['union', members]]]
        root = rng.choice([['optional', a], ['union', [a, ['cls', 'NoneType']]], ['union', [['cont', 'List', ['cls', 'bytes']], a]]])
        wrap = rng.choice([lambda x: x, lambda x: x, lambda x: ['cont', 'List', x], lambda x: ['map', 'Dict', ['cls', 'str'], x],
                           lambda x: ['tuplefixed', [['cls', 'int'], x]]])
        h = wrap(root)
        hand = subst_ir(ov, h)
        for m in members:
            try:
                v = IR.gen_sat(rng, wrap(m), sizes=(1, 2))     # an object of the shape of h holding instances of this member
            except Exception:  # noqa
                continue
            if not IR.valid_value(v):
                continue
            cases.append({'hint': h, 'value': v, 'draws': sorted({0, 1, rng.getrandbits(32)}), 'is_random': rng.random() < 0.8,
                          'entries': list(entries), 'conf': {'tower': False, 'ov': ov}, 'stable': True, 'hand_hint': hand})
    return cases[:n]


def gen_transparent_cases(rng, n, entries):
    """a key that only comes to light after beartype has reduced a transparent hint around it: Annotated[K, metadata that is no
    validator], NewType('N', K), TypeVar('T', bound=K); under the tower or a user override; at the root and below containers"""
    cases = []
    while len(cases) < n:
        tower = rng.random() < 0.5
        if tower:
            a = ['cls', rng.choice(['float', 'complex'])]
            ov = []
        else:
            a = ['cls', rng.choice(['str', 'UserA', 'bytes', 'float'])]
            others = [['cls', c] for c in ['UserB', 'UserC', 'bool', 'int'] if ['cls', c] != a]
            rng.shuffle(others)
            ov = [[a, rng.choice([['union', [a, others[0]]], others[0], ['union', [a, others[0], others[1]]]])]]
        full = ov + (TOWER if tower else [])
        inner = rng.choice([['meta', a], ['meta', a], ['newtype', a], ['tvar_bound', a]])
        root = rng.choice([inner, inner, ['optional', inner], ['union', [inner, ['cls', 'NoneType']]]])
        wrap = rng.choice([lambda x: x, lambda x: x, lambda x: ['cont', 'List', x], lambda x: ['map', 'Dict', ['cls', 'str'], x],
                           lambda x: ['tuplefixed', [['cls', 'int'], x]]])
        h = wrap(root)
        hand = subst_ir(full, h)
        vals = []
        try:
            vals = [IR.gen_sat(rng, hand, sizes=(1, 2)) for _ in range(3)] + [IR.gen_sat(rng, h, sizes=(1, 2))]
            vals.append(IR.mutate(rng, vals[0]))
        except Exception:  # noqa
            continue
        for v in vals:
            if IR.valid_value(v):
                cases.append({'hint': h, 'value': v, 'draws': sorted({0, 1, rng.getrandbits(32)}), 'is_random': rng.random() < 0.8,
                              'entries': list(entries), 'conf': {'tower': tower, 'ov': ov}, 'stable': True, 'hand_hint': hand})
    return cases[:n]


VIOLATION_SETTINGS = [
    {'violation_type': 'UserViolation'},
    {'violation_door_type': 'UserViolation', 'violation_param_type': 'UserParamViolation'},
    {'violation_type': 'UserWarningViolation'},
    {'violation_return_type': 'ValueError', 'violation_param_type': 'DeprecationWarning'},
]


def oracle(case, res):
    out = []
    runs = res.get('runs', [])
    for di, per in enumerate(runs):
        vs = {e: o['verdict'] for e, o in per.items()}
        if 'hand' in vs and vs['hand'] != vs['is_bearable']:
            out.append(({'clause': 'conf_vs_hand', 'tower': case['conf']['tower'], 'n_ov': len(case['conf']['ov'])},
                        'the check under the rewriting configuration differs from the check of the hand-rewritten hint',
                        {'draw': case['draws'][di], 'verdicts': vs}))
    if case.get('stable') and res.get('sat'):
        for di, per in enumerate(runs):
            if per['is_bearable']['verdict'] != 'T':
                out.append(({'clause': 'false_alarm_under_conf'},
                            'an object satisfying the hand-rewritten hint was rejected under the configuration',
                            {'draw': case['draws'][di], 'verdict': per['is_bearable']['verdict']}))
    return out[:1]


def run(ctx):
    ctx.rule = ('hints from the shared grammar with override keys (float, complex, int, str, bytes, UserA, List[int]) '
                'injected at class leaves of every depth (incl. mapping keys/values, fixed tuples, type[...]), '
                'is_pep484_tower on 45%, 0-3 user overrides of kinds widen {A: A|B}, swap {A: B}, {A: object}, '
                'nest {A: List[A]}, {A: Optional[A]}, {A: tuple[A, B]}; 75% stable (compared with the hand-rewritten '
                'hint under the default configuration) and 25% chained; objects generated to satisfy the rewritten and '
                'the original hint plus mutations; violation_* settings x 4; non-trivial = key below >= 1 container '
                'level; distinct = distinct (conf, hint, object)')
    ctx.assumptions += ['override keys are classes or List[int]; Annotated/union keys and PEP 695 aliases are outside '
                        'the model', 'type[K] with a replacement that is not a class or union of classes is outside the model']
    ctx.safe_regenerate(regenerate)
    proof_err = c01.prove_core(ctx, PROP)
    failures = 0
    try:
        # the violation_* options are not read where verdicts are computed
        reads = conf_reads()
        bad_reads = sorted({(a, f) for a, f in reads if a.startswith('violation_') and a != 'violation_verbosity'
                            and '/error/' not in f})
        ctx.extra['conf_attributes_read_by_codegen'] = sorted({a for a, _ in reads})
        n = {'quick': 420, 'thorough': 12000}[ctx.tier]
        cases = gen_cases(ctx.rng, n, 4, ('is_bearable', 'die_if_unbearable', 'param'))
        cases += gen_wide_cases(ctx.rng, max(60, n // 8), ('is_bearable', 'die_if_unbearable', 'param'))
        cases += gen_transparent_cases(ctx.rng, max(60, n // 8), ('is_bearable', 'die_if_unbearable', 'param'))

        def gen(rng, k, depth, entries=None):
            return cases
        failures += c01.run_stream(ctx, n, 4, oracle, gen=gen, corpus=False)
        for c in cases:
            ctx.count('stable' if c['stable'] else 'chained')
            ctx.count('tower' if c['conf']['tower'] else 'no_tower')
            for _, v in c['conf']['ov']:
                ctx.count('replacement:' + v[0])
        # structure of the code generated under the configuration
        if failures <= 12 and ctx.extra.get('model_ok', True):
            seen, hm = set(), []
            for c in cases:
                key = json.dumps([c['hint'], c['conf'], c['is_random']])
                if key not in seen and c['hint'][0] != 'annot':
                    seen.add(key)
                    hm.append((c['hint'], c['is_random'], c['conf']))
            hm = hm[:{'quick': 150, 'thorough': 3000}[ctx.tier]]
            bad, errors, terms = C.structural(ctx, 'c18', hm)
            ctx.evaluations += len(hm)
            ctx.extra['structural_hints_compared'] = len(hm) - len(errors)
            for i in ([e[0] for e in errors] + bad)[:3]:
                failures += 1
                ctx.broken('corr/codegen_structural_under_conf: ' + dict(errors).get(i, 'generated code differs from the model'),
                           json.dumps({'hint': hm[i][0], 'conf': hm[i][2], 'real_code_term': terms[i]})[:4000],
                           shape={'broken': 'corr/codegen_structural_under_conf'})
        # violation-type options never move a verdict
        if failures <= 12:
            base = [dict(c, entries=['is_bearable', 'die_if_unbearable', 'typehint_die', 'param', 'return'])
                    for c in cases[:: max(1, len(cases) // {'quick': 60, 'thorough': 1500}[ctx.tier])]]
            base_obs = C.run_impl_cases(base)
            for vi, setting in enumerate(VIOLATION_SETTINGS):
                var = [dict(c, conf=dict(c['conf'], violation=setting)) for c in base]
                obs = C.run_impl_cases(var)
                for c, ob, ov in zip(base, base_obs, obs):
                    ctx.case([c['hint'], c['value'], c['conf'], vi], True)
                    for di, (pb, pv) in enumerate(zip(ob.get('runs', []), ov.get('runs', []))):
                        b = {e: o['verdict'] for e, o in pb.items()}
                        v = {e: o['verdict'] for e, o in pv.items()}
                        if b != v and failures <= 12:
                            failures += 1
                            ctx.report({'clause': 'violation_type_moves_verdict', 'setting': sorted(setting)},
                                       {'case': c, 'setting': setting, 'draw': c['draws'][di], 'default': b, 'configured': v},
                                       'a violation_* option changed a verdict (or the class raised is not the configured one)')
        if bad_reads and not failures:
            ctx.broken('translator/conf_reads: a violation_* option is read on the code-generation path',
                       json.dumps(bad_reads), shape={'broken': 'conf_reads'})
            failures += 1
    except CoqFailure as e:
        if proof_err is None:
            ctx.broken('corr/c18 model evaluation', e.log)
            return
    # the int that the reduction of Counter[K] introduces for the values is rewritten by an override of int although the hint never mentions int
    probe = counter_probe()
    ctx.extra['counter_value_override_probe'] = probe
    ctx.evaluations += 1
    if probe.get('configured') != probe.get('by_hand'):
        if ctx.report({'clause': 'conf_vs_hand', 'implicit': 'counter_value_int'}, {'observed': probe},
                      'an override of int also rewrites the value hint beartype introduces when it reduces Counter[K]') == 'violation':
            failures += 1
    if proof_err is not None and not failures:
        ctx.broken(f'{PROP} ({proof_err.what})', proof_err.log)


def counter_probe():
    import subprocess
    from harness.common import PY, impl_env
    code = ('import json\nfrom collections import Counter\nfrom beartype import BeartypeConf, FrozenDict\nfrom beartype.door import is_bearable\n'
            'c = Counter({"a": 1})\nconf = BeartypeConf(hint_overrides=FrozenDict({int: str}))\n'
            'print(json.dumps({"configured": bool(is_bearable(c, Counter[str], conf=conf)), "by_hand": bool(is_bearable(c, Counter[str]))}))\n')
    p = subprocess.run([PY, '-c', code], capture_output=True, text=True, env=impl_env(), timeout=120)
    try:
        return json.loads(p.stdout.strip().splitlines()[-1])
    except Exception:  # noqa
        return {'probe_failed': p.stderr[-300:] or 'no output'}


def replay(ctx, path):
    with open(path) as f:
        body = json.load(f)
    ctx.safe_regenerate(regenerate)
    case = body['record'].get('case')
    if case:
        obs = C.run_impl_cases([case])
        print('implementation:', json.dumps(obs[0])[:3000])
        try:
            bad = C.evaluate(ctx, 'replay', [case], obs)
            print('model agrees' if not bad else f'model DISAGREES at {bad}')
        except CoqFailure as e:
            print('model evaluation failed', e.log[-500:])
        for shape, what, extra in oracle(case, obs[0]):
            ctx.report(shape, {'case': case, 'observed': extra}, what)
