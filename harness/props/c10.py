"""C10 — checking never modifies or consumes the object being checked.  See DESIGN.md 5/C10.

proof:          coq/theories/Props/C10.v (trace safety established inside the evaluation proof)
correspondence: spy containers log every dunder call (mutators included) on all five entry points,
                rejecting paths included; one-shot iterators/generators are re-read after the check;
                the model's protocol trace must equal the spy log
"""
import json

from harness import corecorr as C
from harness import coreir as IR
from harness.common import CoqFailure
from harness.props import c01
from harness.translate.run import regenerate_core

PROP = 'theories/Props/C10.v'
ONE_SHOT_HINTS = [
    ['cont', 'Iterable', ['cls', 'int']], ['cont', 'Container', ['cls', 'int']],
    ['cont', 'Reversible', ['cls', 'str']], ['cont', 'Collection', ['cls', 'int']],
    ['shallow', 'Iterator', ['cls', 'int']], ['shallow', 'Generator', ['cls', 'int']],
    ['union', [['cont', 'List', ['cls', 'int']], ['cont', 'Iterable', ['cls', 'str']]]],
    ['cont', 'List', ['cont', 'Iterable', ['cls', 'int']]],
    ['tuplefixed', [['cont', 'Iterable', ['cls', 'int']], ['cls', 'int']]],
    ['map', 'Mapping', ['cls', 'str'], ['cont', 'Iterable', ['cls', 'int']]],
    ['map', 'DefaultDict', ['cls', 'str'], ['cls', 'int']],
    ['map', 'Dict', ['cls', 'str'], ['cont', 'List', ['cls', 'int']]],
    ['counter', ['cls', 'str']],
]


def regenerate(ctx):
    regenerate_core()


def one_shot_values(rng):
    items = [rng.choice([['int', 1], ['str', 'a'], ['int', 5]]) for _ in range(rng.randint(0, 3))]
    shot = ['cont', rng.choice(['generator', 'list_iterator', 'UserIter', 'UserCont', 'UserSizedIter']), items]
    return [shot, ['cont', 'list', [shot]], ['cont', 'tuple', [shot, ['int', 3]]],
            ['map', rng.choice(['dict', 'defaultdict', 'UserMap']), [[['str', 'k'], shot]]],
            ['map', 'defaultdict', [[['str', 'k'], rng.choice([['int', 1], ['str', 'x']])], [['str', 'j'], ['int', 2]]]],
            ['map', 'Counter', [[['str', 'k'], ['int', 2]]]], ['map', 'defaultdict', []]]


def targeted(rng, n, depth, entries=C.ALL_ENTRIES, draws=None):
    cases = []
    for _ in range(n):
        h = rng.choice(ONE_SHOT_HINTS)
        for v in one_shot_values(rng):
            cases.append({'hint': h, 'value': v, 'draws': [0, 1, 2 ** 32 - 1], 'is_random': rng.random() < 0.8,
                          'entries': list(entries)})
    return cases


def oracle(case, res):
    out = []
    for di, per in enumerate(res.get('runs', [])):
        for e, o in per.items():
            if o['mutations'] or not o['intact']:
                out.append(({'clause': 'subject_disturbed', 'entry': e,
                             'how': 'mutated' if o['mutations'] else 'consumed-or-changed'},
                            'a type-check modified or consumed the object it checked',
                            {'draw': case['draws'][di], 'entry': e, 'mutations': o['mutations'],
                             'intact': o['intact'], 'trace': o['trace'][:30]}))
    return out[:1]


def run(ctx):
    ctx.rule = (c01.RULE + '; plus targeted cases: one-shot iterators, generators, non-iterable containers and '
                'defaultdicts at the root, inside lists/tuples/mappings, under Iterable/Container/Reversible/'
                'Collection/Iterator/Generator/Mapping/DefaultDict/Counter hints; every entry point, accepting and '
                'rejecting; non-trivial = object contains a spy container or a one-shot iterable')
    ctx.assumptions += ['see C01; "a Collection re-iterates non-destructively" and "Mapping.__getitem__ on a present '
                        'key does not mutate" are the ABC contracts, assumed',
                        'argument identity/forwarding is C04']
    ctx.safe_regenerate(regenerate)
    proof_err = c01.prove_core(ctx, PROP)
    failures = 0
    try:
        failures += c01.run_stream(ctx, {'quick': 40, 'thorough': 800}[ctx.tier], 3, oracle, gen=targeted)
        if failures <= 12:
            failures += c01.run_stream(ctx, {'quick': 120, 'thorough': 3000}[ctx.tier], 4, oracle)
    except CoqFailure as e:
        if proof_err is None:
            ctx.broken('corr/core model evaluation', e.log)
            return
    # composite mappings: a ChainMap whose first child is a defaultdict (the key lives in a later child)
    probe = chainmap_probe()
    ctx.extra['chainmap_over_defaultdict_probe'] = probe
    ctx.evaluations += len(probe)
    for name, inserted in probe.items():
        if inserted:
            if ctx.report({'clause': 'defaultdict_insert', 'via': 'ChainMap'}, {'hint': name, 'inserted': inserted},
                          'a check of a ChainMap inserted a key into its defaultdict child') == 'violation':
                failures += 1
            break
    # iterators that are also collections (they report a length and support `in`): under Iterator / Generator-family
    # hints, at any position, no check may advance them, accepting or rejecting
    citer = collection_iterator_probe()
    ctx.extra['collection_iterator_probe'] = {'cases': len(citer), 'not_intact': sorted(k for k, v in citer.items() if v != 'intact')[:5]}
    ctx.evaluations += len(citer)
    for name, obs in sorted(citer.items()):
        if name == 'probe_failed' or obs != 'intact':
            if ctx.report({'clause': 'iterator_advanced', 'via': 'collection_iterator_probe'}, {'case': name, 'observed': obs},
                          'a check against an Iterator hint advanced an iterator that is also a collection') == 'violation':
                failures += 1
            break
    # checks the import hook adds after annotated assignments: the module must see its iterators, queues and default
    # dictionaries exactly as the same module imported without the hook sees them
    hook = hooked_assignment_probe(ctx)
    ctx.extra['hooked_assignment_probe'] = hook if 'probe_failed' in hook else {k: 'same' if v[0] == v[1] else v for k, v in hook.items()}
    ctx.evaluations += len(hook)
    if 'probe_failed' in hook:
        failures += 1
        ctx.report({'clause': 'hooked_assignment_probe_failed'}, hook, 'the probe of hooked annotated assignments crashed')
    else:
        for name, (plain, hooked) in sorted(hook.items()):
            if plain != hooked:
                if ctx.report({'clause': 'hooked_assignment_consumes', 'what': name}, {'without_hook': plain, 'with_hook': hooked},
                              'the check added after an annotated assignment consumed or changed what the module works with') == 'violation':
                    failures += 1
                    break
    if proof_err is not None and not failures:
        ctx.broken(f'{PROP} ({proof_err.what})', proof_err.log)


HOOKED_MODULE = r"""
from collections import defaultdict, deque
from collections.abc import Generator, Iterator
class H: pass
holder = H()
R = {}
def skip_header(it):
    next(it)
    return it
src = iter([0, 1, 2, 3, 4, 5])
holder.stream: Iterator[int] = skip_header(src)
R['attr_iterator'] = [holder.stream is src, list(src)]
gen = (c for c in 'abcdef')
holder.gen: Generator[str, None, None] = skip_header(gen)
R['attr_generator'] = list(gen)
gen2 = (c for c in 'abcdef')
holder.first: str = next(gen2)
R['attr_generator_item'] = [holder.first, list(gen2)]
jobs = deque(['j1', 'j2', 'j3'])
holder.job: str = jobs.popleft()
R['attr_container_item'] = [holder.job, list(jobs)]
keys = iter('ab')
registry = defaultdict(lambda: len(registry))
holder.ident: int = registry[next(keys)]
R['attr_defaultdict'] = [holder.ident, dict(registry)]
x: Iterator[int] = skip_header(iter([7, 8, 9]))
R['name_iterator'] = list(x)
y: int = registry['c']
R['name_defaultdict'] = dict(registry)
class K:
    def __init__(self, lines):
        self.header: str = next(lines)
        self.lines: Iterator[str] = lines
k = K(iter(['h', 'r1', 'r2']))
R['attr_self_in_method'] = [k.header, list(k.lines)]
def local(it):
    first: int = next(it)
    rest: Iterator[int] = it
    return [first, list(rest)]
R['local_names'] = local(iter([1, 2, 3]))
nums = iter([1, 'y', 'z'])
try:
    next(nums)
    holder.num: int = next(nums)
except Exception as e:
    R['attr_rejected'] = [type(e).__name__ if 'Violation' not in type(e).__name__ else 'violation', list(nums)]
else:
    R['attr_rejected'] = ['stored', list(nums)]
"""


def hooked_assignment_probe(ctx):
    import os
    import shutil
    import subprocess
    from harness.common import PY, impl_env
    root = os.path.join(ctx.workdir, 'c10hook')
    shutil.rmtree(root, ignore_errors=True)
    for pkg in ('c10plain', 'c10hooked'):
        os.makedirs(os.path.join(root, pkg))
        open(os.path.join(root, pkg, '__init__.py'), 'w').write('')
        open(os.path.join(root, pkg, 'scen.py'), 'w').write(HOOKED_MODULE)
    code = ('import json, sys\nsys.dont_write_bytecode = True\nsys.path.insert(0, %r)\n'
            'from beartype.claw import beartype_package\nbeartype_package("c10hooked")\n'
            'import c10plain.scen as a, c10hooked.scen as b\n'
            'out = {k: [a.R[k], b.R.get(k)] for k in a.R}\n'
            'out["attr_rejected"] = [["stored", a.R["attr_rejected"][1]], ["stored" if b.R["attr_rejected"][0] == "violation" else b.R["attr_rejected"][0], b.R["attr_rejected"][1]]]\n'
            'print(json.dumps(out))\n' % root)
    p = subprocess.run([PY, '-c', code], capture_output=True, text=True, env=impl_env(), timeout=120)
    shutil.rmtree(root, ignore_errors=True)
    try:
        return json.loads(p.stdout.strip().splitlines()[-1])
    except Exception:  # noqa
        return {'probe_failed': ((p.stderr or '') + ' | ' + (p.stdout or 'no output'))[-900:]}


def collection_iterator_probe():
    import subprocess
    from harness.common import PY, impl_env
    code = r"""
import json, typing, collections.abc as abc
from beartype import beartype, BeartypeConf
from beartype.door import is_bearable, die_if_unbearable, TypeHint
class CollIter:
    'one-shot iterator that is also a Collection: __len__, __contains__, __iter__ returning itself, __next__'
    def __init__(self, items): self.items = list(items); self.log = []
    def __len__(self): return len(self.items)
    def __contains__(self, x): return x in self.items
    def __iter__(self): self.log.append('iter'); return self
    def __next__(self):
        self.log.append('next')
        if not self.items: raise StopIteration
        return self.items.pop(0)
assert isinstance(CollIter([]), abc.Collection) and isinstance(CollIter([]), abc.Iterator)
HINTS = {'Iterator[int]': abc.Iterator[int], 'typing.Iterator[str]': typing.Iterator[str],
         'Optional[Iterator[int]]': typing.Optional[abc.Iterator[int]], 'Iterator[int] | str': typing.Union[abc.Iterator[int], str],
         'Iterator[list[int]]': abc.Iterator[typing.List[int]]}
WRAP = {'bare': lambda h, o: (h, o), 'list item': lambda h, o: (typing.List[h], [o]),
        'tuple position': lambda h, o: (typing.Tuple[h, int], (o, 1)), 'dict value': lambda h, o: (typing.Dict[str, h], {'k': o})}
out = {}
for hn, h0 in HINTS.items():
    for wn, wrap in WRAP.items():
        for items in ([1, 2, 3], ['a', 'b'], [[1], [2]]):
            for en in ('is_bearable', 'die_if_unbearable', 'TypeHint', 'param', 'return', 'param_On'):
                it = CollIter(items); h, o = wrap(h0, it)
                try:
                    if en == 'is_bearable': is_bearable(o, h)
                    elif en == 'die_if_unbearable': die_if_unbearable(o, h)
                    elif en == 'TypeHint': TypeHint(h).is_bearable(o)
                    elif en == 'param':
                        @beartype
                        def f(x: h): return None
                        f(o)
                    elif en == 'param_On':
                        from beartype import BeartypeStrategy
                        @beartype(conf=BeartypeConf(strategy=BeartypeStrategy.On))
                        def f(x: h): return None
                        f(o)
                    else:
                        @beartype
                        def g(x) -> h: return x
                        g(o)
                except Exception as e:
                    if 'Violation' not in type(e).__name__:
                        out['%s / %s / %r / %s' % (hn, wn, items, en)] = 'raised ' + type(e).__name__ + ': ' + str(e)[:120]
                        continue
                out['%s / %s / %r / %s' % (hn, wn, items, en)] = (
                    'intact' if it.items == items and 'next' not in it.log else 'advanced: log=%s left=%r' % (it.log[:6], it.items))
print(json.dumps(out))
"""
    p = subprocess.run([PY, '-c', code], capture_output=True, text=True, env=impl_env(), timeout=300)
    try:
        return json.loads(p.stdout.strip().splitlines()[-1])
    except Exception:  # noqa
        return {'probe_failed': (p.stderr or 'no output')[-600:]}


def chainmap_probe():
    import subprocess
    from harness.common import PY, impl_env
    code = ('import collections, collections.abc as abc, json\n'
            'from collections import ChainMap, defaultdict\n'
            'from typing import Mapping, MutableMapping\n'
            'from beartype import beartype\n'
            'from beartype.door import is_bearable, die_if_unbearable\n'
            'out = {}\n'
            'for name, h in (("ChainMap[str, int]", ChainMap[str, int]), ("Mapping[str, int]", Mapping[str, int]),\n'
            '                ("MutableMapping[str, int]", MutableMapping[str, int])):\n'
            '    d = defaultdict(int); cm = ChainMap(d, {"a": 1})\n'
            '    is_bearable(cm, h); die_if_unbearable(cm, h)\n'
            '    out[name] = dict(d)\n'
            'print(json.dumps(out))\n')
    p = subprocess.run([PY, '-c', code], capture_output=True, text=True, env=impl_env(), timeout=120)
    try:
        return json.loads(p.stdout.strip().splitlines()[-1])
    except Exception:  # noqa
        return {'probe_failed': p.stderr[-300:] or 'no output'}


def replay(ctx, path):
    with open(path) as f:
        body = json.load(f)
    if body.get('shape', {}).get('via') == 'collection_iterator_probe':
        name = body['record'].get('case')
        print(json.dumps({name: collection_iterator_probe().get(name)}))     # 'intact' when the property holds
        return
    c01.replay(ctx, path)
