"""C01 — no false alarms.  See DESIGN.md 5/C01.

proof:          coq/theories/Props/C01.v (C01_no_false_alarm, C01_check_total) over the shared core
translator tie: Gen/{ClassTable,SignSets,Templates}.v regenerated from /repo and the live interpreter
correspondence: generated (hint, object, draw, conf) through beartype's five entry points with spy
                containers, and through the model (verdict, protocol trace, sat vs a Python oracle)
"""
import json

from harness import corecorr as C
from harness import coreir as IR
from harness.common import CoqFailure
from harness.translate.run import regenerate_core

PROP = 'theories/Props/C01.v'
RULE = ('hints drawn from the modelled grammar (classes, unions, literals, fixed/variadic tuples, the 15 '
        'one-argument container signs, 6 mapping signs, Counter, type[...], shallow Iterator/Generator; depth <= 4), '
        'for each hint objects generated to satisfy it plus mutations at a random path, 5 draws '
        '{0,1,small,2^32-1,random} x is_random x strategy; non-trivial = hint has >= 1 container level; '
        'distinct = distinct (hint, object, conf)')


def regenerate(ctx):
    regenerate_core()


def prove_core(ctx, prop):
    """build the property's proofs; when they break, still try to build the executable model alone so
    that the search for a failing input can use it.  Returns the proof failure (or None)."""
    from harness.common import coq_make
    ctx.extra['model_ok'] = True
    try:
        ctx.prove(prop, extra_targets=['theories/Core/Corr.vo', 'theories/Core/Cost.vo', 'theories/Core/Override.vo'])
        return None
    except CoqFailure as e:
        try:
            coq_make(['theories/Core/Corr.vo', 'theories/Core/Override.vo'])
        except CoqFailure:
            ctx.extra['model_ok'] = False
        return e


def run_stream(ctx, n, depth, oracle, entries=C.ALL_ENTRIES, shard=300, gen=None, corpus=True):
    """generate, run on both sides, report; oracle(case, res) -> list of (shape, what) property failures"""
    cases = (gen or C.gen_cases)(ctx.rng, n, depth, entries=entries)
    for c in cases:
        c['strategy'] = ctx.rng.choice(['O1', 'O1', 'On'])
    if corpus:
        cases = C.load_corpus() + cases
    failures = 0
    for lo in range(0, len(cases), shard):
        part = cases[lo:lo + shard]
        obs = C.run_impl_cases(part)
        C.record_distribution(ctx, part, obs)
        for case, res in zip(part, obs):
            ctx.case([case['hint'], case['value'], case['is_random']], C.container_levels(case['hint']) >= 1,
                     sample={'hint': case['hint'], 'value': case['value'], 'draws': case['draws'],
                             'verdicts': [r['is_bearable']['verdict'] for r in res.get('runs', [])]})
            ctx.evaluations += max(0, len(case['draws']) * len(case['entries']) - 1)
            for shape, what, extra in oracle(case, res):
                failures += 1
                ctx.report(shape, {'case': case, 'observed': extra, 'how': 'harness/impl/core_impl.py'}, what)
        bad = C.evaluate(ctx, str(lo), part, obs) if ctx.extra.get('model_ok', True) else []
        for ci, di in bad[:5]:
            failures += 1
            case = dict(part[ci], value=obs[ci].get('value_norm', part[ci]['value']))
            draw = case['draws'][di] if di >= 0 else None
            ctx.report({'clause': 'correspondence', 'hint_root': case['hint'][0]},
                       {'case': case, 'draw': draw, 'implementation': obs[ci]['runs'][di] if di >= 0 else obs[ci],
                        'model': C.model_outputs(ctx, 'rep', case, draw) if di >= 0 else None},
                       'model (coq/theories/Core) and beartype disagree on verdict, trace or meaning')
        for ci, di, vs in C.entry_disagreements(part, obs)[:5]:
            failures += 1
            ctx.report({'clause': 'entrypoints'}, {'case': part[ci], 'draw': part[ci]['draws'][di], 'verdicts': vs},
                       'entry points reach different verdicts for one hint, object, conf and draw')
        if failures > 12:
            break
    return failures


def structural_phase(ctx, n, depth=4):
    """structural correspondence of the code generator: the real generated code, parsed, must be the term the
    model generator produces; a mismatch is followed by a focused behavioural search on that hint"""
    from harness import coreir as IR
    hm = [(IR.gen_hint(ctx.rng, ctx.rng.choice([1, 2, 3, depth])), ctx.rng.random() < 0.8) for _ in range(n)]
    if not ctx.extra.get('model_ok', True):
        return 0
    bad, errors, terms = C.structural(ctx, 'st', hm)
    ctx.extra['structural_hints_compared'] = len(hm) - len(errors)
    ctx.evaluations += len(hm)
    failures = 0
    for i in ([e[0] for e in errors] + bad)[:4]:
        h, rnd = hm[i]
        why = dict(errors).get(i, 'generated code differs from the model generator')
        focus = []
        for _ in range(25):
            good = IR.gen_sat(ctx.rng, h, sizes=(0, 1, 2, 3))
            for v in (good, IR.mutate(ctx.rng, good)):
                if IR.valid_value(v):
                    focus.append({'hint': h, 'value': v, 'draws': [0, 1, 2, 2 ** 32 - 1], 'is_random': rnd,
                                  'entries': list(C.ALL_ENTRIES)})
        found = False
        obs = C.run_impl_cases(focus)
        mism = C.evaluate(ctx, 'focus%d' % i, focus, obs) if i not in dict(errors) else []
        for ci, res in enumerate(obs):
            probs = oracle(focus[ci], res) + [(s, w, e) for (k, d, e0, e) in
                                               [x for x in C.integrity_failures([focus[ci]], [res])]
                                               for s, w in [({'clause': 'subject_disturbed'}, 'a check disturbed its subject')]]
            if probs:
                found = True
                failures += 1
                ctx.report(probs[0][0], {'case': focus[ci], 'observed': probs[0][2], 'after': 'structural mismatch',
                                         'real_code_term': terms[i] if not isinstance(terms[i], dict) else terms[i]},
                           probs[0][1])
                break
        if not found and mism:
            ci, di = mism[0]
            found = True
            failures += 1
            ctx.report({'clause': 'correspondence', 'hint_root': h[0]},
                       {'case': focus[ci], 'draw': focus[ci]['draws'][di] if di >= 0 else None,
                        'implementation': obs[ci], 'after': 'structural mismatch'},
                       'model and beartype disagree on verdict or trace (found after a structural mismatch)')
        if not found:
            failures += 1
            ctx.broken('corr/codegen_structural: ' + why,
                       json.dumps({'hint': h, 'is_random': rnd, 'real_code_term': terms[i]})[:5000],
                       shape={'broken': 'corr/codegen_structural', 'hint_root': h[0]})
    return failures


def oracle(case, res):
    """the property, directly on the implementation: sat -> accepted on every entry point and draw"""
    out = []
    if res.get('sat'):
        for di, per in enumerate(res.get('runs', [])):
            for e, o in per.items():
                if o['verdict'] != 'T':
                    out.append(({'clause': 'false_alarm', 'entry': e, 'verdict': o['verdict'].split(':')[0]},
                                'an object satisfying the hint was not accepted',
                                {'draw': case['draws'][di], 'entry': e, 'verdict': o['verdict']}))
    return out[:1]


def gen_reduction_cases(rng, n, depth, entries=C.ALL_ENTRIES):
    """hints beartype reduces before generating code (constrained and bound TypeVars, NewTypes), alone and inside unions narrower
    than the union they reduce to, below containers; objects conforming to what they mean, one per constraint"""
    scal = ['int', 'str', 'bytes', 'float', 'bool', 'UserA', 'UserC', 'complex']
    cases = []
    while len(cases) < n:
        k = rng.sample(scal, rng.choice([2, 3, 3, 4]))
        members = [['cls', c] for c in k]
        red = rng.choice([['tvar_constr', members], ['tvar_constr', members], ['tvar_bound', ['union', members]],
                          ['tvar_bound', ['cls', k[0]]], ['newtype', ['cls', k[0]]]])
        other = rng.choice([['cls', 'NoneType'], ['cont', 'List', ['cls', 'str']], ['cls', 'UserB']])
        root = rng.choice([red, ['optional', red], ['union', [red, other]], ['union', [other, red]]])
        wrap = rng.choice([lambda x: x, lambda x: x, lambda x: ['cont', 'List', x], lambda x: ['map', 'Dict', ['cls', 'str'], x],
                           lambda x: ['tuplefixed', [['cls', 'int'], x]], lambda x: ['cont', 'Tuple', x]])
        h = wrap(root)
        targets = members if red[0] == 'tvar_constr' or (red[0] == 'tvar_bound' and red[1][0] == 'union') else [red[1]]
        for m in targets + [other]:
            try:
                v = IR.gen_sat(rng, wrap(m), sizes=(1, 2))
            except Exception:  # noqa
                continue
            if IR.valid_value(v):
                cases.append({'hint': h, 'value': v, 'draws': sorted({0, 1, rng.getrandbits(32)}), 'is_random': rng.random() < 0.8,
                              'entries': list(entries)})
        bad = IR.mutate(rng, IR.gen_sat(rng, wrap(members[0]), sizes=(1, 2)))
        if IR.valid_value(bad):
            cases.append({'hint': h, 'value': bad, 'draws': [0, 1], 'is_random': True, 'entries': list(entries)})
    return cases[:n]


def run(ctx):
    ctx.rule = RULE + ('; reduction stream: constrained / bound TypeVars and NewTypes alone, in unions narrower than what they reduce '
                       'to, below containers, one conforming object per constraint')
    ctx.assumptions += [
        'the model covers the grammar G of DESIGN.md section 4 (hint_ok) and well-formed objects (wf); '
        'user-defined __eq__/__bool__/__instancecheck__ are not modelled',
        'CPython evaluates the generated expression as Core/Expr.v eval does (checked by the trace/verdict '
        'correspondence, not proved)',
    ]
    ctx.safe_regenerate(regenerate)
    proof_err = prove_core(ctx, PROP)
    n = {'quick': 260, 'thorough': 6000}[ctx.tier]
    try:
        failures = structural_phase(ctx, {'quick': 300, 'thorough': 6000}[ctx.tier])
        if failures <= 12:
            failures += run_stream(ctx, n, 4, oracle)
        if failures <= 12:
            failures += run_stream(ctx, max(80, n // 4), 2, oracle, gen=gen_reduction_cases, corpus=False)
    except CoqFailure as e:
        if proof_err is None:
            ctx.broken('corr/core model evaluation', e.log)
            return
        failures = 0
    # call shapes: a conforming object is accepted however it reaches its parameter (positionally, by keyword, through *args /
    # **kwargs, next to unannotated or ignorable-hinted parameters and a hinted **kwargs, in methods, as a result)
    from harness.shapes import run_shapes
    rows = run_shapes()
    ctx.evaluations += len(rows)
    ctx.extra['call_shape_rows'] = len(rows)
    for r in rows:
        if r['kind'] in ('crash', 'decoration') or (r['kind'] == 'good' and (r['outcome'] != 'ok' or not r['door'])):
            failures += 1
            ctx.report({'clause': 'call_shape_false_alarm', 'shape': r.get('shape')}, r,
                       'a conforming object was rejected (or the decoration failed) for one way of passing it')
            if failures > 12:
                break
    if proof_err is not None and not failures:
        ctx.broken(f'{PROP} ({proof_err.what})', proof_err.log)


def replay(ctx, path):
    with open(path) as f:
        body = json.load(f)
    ctx.safe_regenerate(regenerate)
    case = body['record'].get('case')
    if body['record'].get('shape') and body['record'].get('pair'):
        # a call-shape row: run the probe again and report the same (shape, call, pair, kind) if it still fails
        from harness.shapes import run_shapes
        want = body['record']
        for r in run_shapes():
            if all(r.get(k) == want.get(k) for k in ('shape', 'call', 'pair', 'kind')):
                print('implementation:', json.dumps(r))
                good = r['kind'] == 'good' and r['outcome'] == 'ok' and r['door']
                bad = r['kind'] == 'bad' and r['outcome'] == r['where'] and not r['door']
                if not (good or bad):
                    ctx.report(body.get('shape') or {'clause': 'call_shape'}, r, 'the call shape still fails')
        return
    if case:
        obs = C.run_impl_cases([case])
        print('implementation:', json.dumps(obs[0])[:3000])
        bad = C.evaluate(ctx, 'replay', [case], obs)
        print('model agrees' if not bad else f'model DISAGREES at {bad}')
        for shape, what, extra in oracle(case, obs[0]):
            ctx.report(shape, {'case': case, 'observed': extra}, what)
