"""C03 — all entry points agree; every rejection is the configured, explained violation.  See DESIGN.md 5/C03.

proof:          coq/theories/Props/C03.v (Core/GenProofs.v check_expr_correct; Core/CauseProofs.v no_desync,
                cause_genuine over the explanation-path model Core/Cause.v)
translator tie: shared core (Gen/{ClassTable,SignSets,Templates}.v)
correspondence: (1) the real explanation path (errmain.get_hint_object_violation) invoked directly on every
                generated (hint, object, draw, conf) — accepted or rejected — against find_cause, O1 and On;
                (2) six entry points x violation_* / verbosity / is_color / strategy settings: one verdict, the
                exact configured class raised (or warned once, the call proceeding), message naming the hint,
                culprits starting with the rejected object, no other exception
"""
import json
import os

from harness import corecorr as C
from harness import coreir as IR
from harness.common import CoqFailure, coq_list, coqc_many, parse_nat_list
from harness.props import c01
from harness.translate.run import regenerate_core

PROP = 'theories/Props/C03.v'
HEADER = C.HEADER.replace('Core.Corr.', 'Core.Corr Core.Cause Core.CorrCause.')
ENTRIES = ('is_bearable', 'die_if_unbearable', 'typehint', 'typehint_die', 'param', 'return')

SETTINGS = [
    {},
    {'violation': {'violation_type': 'UserViolation'}},
    {'violation': {'violation_door_type': 'UserViolation', 'violation_param_type': 'UserParamViolation'}, 'verbosity': 1},
    {'violation': {'violation_type': 'UserWarningViolation'}, 'is_color': True},
    {'violation': {'violation_return_type': 'ValueError', 'violation_param_type': 'DeprecationWarning'}, 'verbosity': 3,
     'is_color': False},
    {'verbosity': 3, 'is_color': True},
]


def regenerate(ctx):
    regenerate_core()


def cause_cases(ctx, cases, observed):
    """model vs real explanation path; returns failing (case, draw) pairs"""
    rows, index = [], []
    for ci, (case, res) in enumerate(zip(cases, observed)):
        if 'runs' not in res:
            continue
        cv = dict(case, value=res.get('value_norm', case['value']))
        for di, draw in enumerate(case['draws']):
            o = res['runs'][di].get('cause')
            if o is None:
                continue
            if o['verdict'] not in ('T', 'F'):
                rows.append(None)
                index.append((ci, di))
                continue
            rows.append('{| q_random := %s; q_all := %s; q_hint := %s; q_val := %s; q_draw := (%d)%%Z; q_found := %s |}' % (
                'true' if case['is_random'] else 'false', 'true' if case.get('strategy') == 'On' else 'false',
                C.coq_effective_hint(cv), IR.coq_val(cv['value']), draw, 'true' if o['verdict'] == 'F' else 'false'))
            index.append((ci, di))
    bad = [index[i] for i, r in enumerate(rows) if r is None]
    good = [(i, r) for i, r in enumerate(rows) if r is not None]
    shard, paths = 200, []
    for lo in range(0, len(good), shard):
        text = HEADER + 'Definition cases : list ccase := %s.\nEval vm_compute in (cfailing cases).\n' % coq_list(
            ['\n ' + r for _, r in good[lo:lo + shard]])
        path = os.path.join(ctx.workdir, f'c03_cause_{lo}.v')
        with open(path, 'w') as f:
            f.write(text)
        paths.append(path)
    for si, out in enumerate(coqc_many(paths, jobs=10)):
        bad += [index[good[si * shard + j][0]] for j in parse_nat_list(out)]
    return sorted(bad)


def signal_problems(case, per):
    """the property's clauses about how a rejection surfaces, on one (case, draw)"""
    out = []
    vs = {e: o['verdict'] for e, o in per.items() if e != 'cause'}
    if len(set(vs.values())) > 1:
        out.append(('entrypoints', 'entry points reach different verdicts (or raise something that is not the configured violation)', vs))
    want_warn = {'die_if_unbearable': 'violation_door_type', 'typehint_die': 'violation_door_type',
                 'param': 'violation_param_type', 'return': 'violation_return_type'}
    viol = (case.get('conf') or {}).get('violation') or {}
    for e, o in per.items():
        if e in ('cause', 'is_bearable', 'typehint') or o['verdict'] != 'F':
            continue
        sig = o.get('signal')
        if not sig:
            out.append(('no_signal', f'{e}: a rejection surfaced neither as an exception nor as a warning', o))
            continue
        cls = viol.get(want_warn[e], viol.get('violation_type'))
        is_warn = cls in ('UserWarningViolation', 'DeprecationWarning')
        if (sig['kind'] == 'warn') != is_warn:
            out.append(('wrong_kind', f'{e}: raised where a warning was configured or the reverse', sig))
        if cls is not None and sig['cls'] != cls:
            out.append(('wrong_class', f'{e}: signal class {sig["cls"]} is not the configured {cls}', sig))
        if not sig.get('names_hint'):
            out.append(('message_omits_hint', f'{e}: the violation message does not name the hint', sig))
        if sig['kind'] == 'raise' and sig.get('culprit0') is False:
            out.append(('culprits', f'{e}: culprits do not begin with the rejected object', sig))
        if sig['kind'] == 'warn' and sig.get('count') != 1:
            out.append(('warn_count', f'{e}: the configured warning was emitted {sig.get("count")} times', sig))
        if e == 'param' and sig['kind'] == 'raise' and sig.get('ran'):
            out.append(('ran_after_violation', 'param: the callable ran although its parameter was rejected', sig))
        if sig['kind'] == 'warn' and e in ('param', 'return') and sig.get('ran') != 1:
            out.append(('warn_did_not_proceed', f'{e}: after a configured warning the call did not proceed', sig))
    return out


def run(ctx):
    ctx.rule = ('shared-grammar hints (depth <= 4) x objects generated to satisfy / violate x draws {0,1,small,2^32-1,random} '
                'x is_random x strategy {O1,On} x 6 settings of violation_type / violation_door_type / violation_param_type / '
                'violation_return_type (exception and Warning classes) / violation_verbosity {1,2,3} / is_color {None,True,False}; '
                'every case goes through six entry points and, separately, straight into the explanation path; '
                'non-trivial = hint has >= 1 container level; distinct = distinct (hint, object, conf)')
    ctx.assumptions += ['message wording beyond "names the hint" is not modelled; culprits are compared by identity of the first entry',
                        'user-defined __instancecheck_str__ hooks are outside the model']
    ctx.safe_regenerate(regenerate)
    proof_err = c01.prove_core(ctx, PROP)
    try:
        from harness.common import coq_make
        coq_make(['theories/Core/CorrCause.vo'])
    except CoqFailure as e:
        if proof_err is None:
            proof_err = e
        ctx.extra['model_ok'] = False
    failures = 0
    try:
        n = {'quick': 330, 'thorough': 9000}[ctx.tier]
        cases = C.load_corpus() + C.gen_cases(ctx.rng, n, 4, entries=ENTRIES + ('cause',))
        for i, c in enumerate(cases):
            c['entries'] = list(ENTRIES + ('cause',))
            c['strategy'] = ctx.rng.choice(['O1', 'O1', 'On'])
            c['conf'] = SETTINGS[i % len(SETTINGS)] if ctx.rng.random() < 0.8 else {}
            c['details'] = True
        # ... and hints reinterpreted by hint_overrides / is_pep484_tower (the explanation path reduces hints itself)
        from harness.props import c18
        for i, c in enumerate(c18.gen_cases(ctx.rng, {'quick': 90, 'thorough': 2500}[ctx.tier], 4, ENTRIES + ('cause',))):
            c.pop('hand_hint', None)
            c['strategy'] = ctx.rng.choice(['O1', 'On'])
            c['conf'] = dict(c['conf'], **SETTINGS[i % len(SETTINGS)])
            c['details'] = True
            cases.append(c)
        for lo in range(0, len(cases), 300):
            part = cases[lo:lo + 300]
            obs = C.run_impl_cases(part)
            C.record_distribution(ctx, part, obs)
            for case, res in zip(part, obs):
                ctx.case([case['hint'], case['value'], case['is_random'], case['conf'], case['strategy']],
                         C.container_levels(case['hint']) >= 1,
                         sample={'hint': case['hint'], 'value': case['value'], 'conf': case['conf'],
                                 'verdicts': [{e: o['verdict'] for e, o in r.items()} for r in res.get('runs', [])][:2]})
                ctx.evaluations += max(0, len(case['draws']) * len(case['entries']) - 1)
                ctx.count('setting:' + json.dumps(case['conf'], sort_keys=True)[:60])
                ctx.count('strategy:' + case['strategy'])
                if 'runs' not in res:
                    failures += 1
                    ctx.report({'clause': 'hint_rejected'}, {'case': case, 'observed': res}, 'a generated hint was not accepted')
                    continue
                for di, per in enumerate(res['runs']):
                    for kind, what, extra in signal_problems(case, per)[:1]:
                        failures += 1
                        ctx.report({'clause': kind, 'setting': sorted(case['conf'])},
                                   {'case': case, 'draw': case['draws'][di], 'observed': extra}, what)
                    cz = per.get('cause')
                    if cz and per['is_bearable']['verdict'] == 'F' and cz['verdict'] != 'F':
                        failures += 1
                        ctx.report({'clause': 'desynchronisation', 'hint_root': case['hint'][0]},
                                   {'case': case, 'draw': case['draws'][di], 'observed': cz},
                                   'the generated code rejects but the explanation path finds no cause')
                    if cz and res.get('sat') and cz['verdict'] == 'F':
                        failures += 1
                        ctx.report({'clause': 'spurious_cause', 'hint_root': case['hint'][0]},
                                   {'case': case, 'draw': case['draws'][di], 'observed': cz},
                                   'the explanation path reports a cause for an object satisfying the hint')
            if ctx.extra.get('model_ok', True):
                for ci, di in C.evaluate(ctx, 'v%d' % lo, part, obs)[:4]:
                    failures += 1
                    case = dict(part[ci], value=obs[ci].get('value_norm', part[ci]['value']))
                    ctx.report({'clause': 'correspondence', 'hint_root': case['hint'][0]},
                               {'case': case, 'draw': case['draws'][di] if di >= 0 else None,
                                'implementation': obs[ci]['runs'][di] if di >= 0 else obs[ci]},
                               'model and beartype disagree on verdict, trace or meaning')
                for ci, di in cause_cases(ctx, part, obs)[:4]:
                    failures += 1
                    case = dict(part[ci], value=obs[ci].get('value_norm', part[ci]['value']))
                    ctx.report({'clause': 'cause_correspondence', 'hint_root': case['hint'][0], 'strategy': case['strategy']},
                               {'case': case, 'draw': case['draws'][di], 'implementation': obs[ci]['runs'][di].get('cause')},
                               'the explanation-path model (Core/Cause.v) and beartype\'s error path disagree')
            if failures > 12:
                break
    except CoqFailure as e:
        if proof_err is None:
            ctx.broken('corr/c03 model evaluation', e.log)
            return
    # hints that print alike but are different hints (factory-made validators and classes, new types of one name): every entry
    # point must be about the hint it was given, whatever look-alike was asked about before
    probe = same_repr_probe()
    ctx.extra['same_repr_probe'] = probe if 'probe_failed' in probe else {k: 'agree' if len(set(v.values())) == 1 else v for k, v in probe.items()}
    ctx.evaluations += len(probe)
    if 'probe_failed' in probe:
        failures += 1
        ctx.report({'clause': 'same_repr_probe_failed'}, {'observed': probe}, 'the probe of look-alike hints crashed')
    else:
        for name, verdicts in probe.items():
            want = verdicts.pop('expected')
            if any(v != want for v in verdicts.values()):
                failures += 1
                ctx.report({'clause': 'entrypoints', 'stream': 'same_repr'}, {'case': name, 'expected': want, 'verdicts': verdicts},
                           'entry points disagree on a hint that prints like an earlier, different hint')
                break
    # call shapes: the parameter / return check rejects a violating object wherever Python binds it (keywords that collide with
    # positional-only or variadic parameter names, excess keywords, *args, methods), exactly like is_bearable rejects it
    from harness.shapes import run_shapes
    rows = run_shapes()
    ctx.evaluations += len(rows)
    ctx.extra['call_shape_rows'] = len(rows)
    for r in rows:
        if r['kind'] in ('crash', 'decoration') or (r['kind'] == 'bad' and (r['outcome'] != r['where'] or r['door'])) or \
                (r['kind'] == 'good' and (r['outcome'] != 'ok' or not r['door'])):
            failures += 1
            ctx.report({'clause': 'entrypoints', 'stream': 'call_shapes', 'shape': r.get('shape')}, r,
                       'the decorator\'s check and is_bearable disagree for one way of passing the object')
            if failures > 12:
                break
    if proof_err is not None and not failures:
        ctx.broken(f'{PROP} ({proof_err.what})', proof_err.log)


def same_repr_probe():
    import subprocess
    from harness.common import PY, impl_env
    code = r'''
import json, warnings
warnings.simplefilter('ignore')
from typing import Annotated, NewType, Optional
from beartype import beartype
from beartype.door import TypeHint, die_if_unbearable, is_bearable
from beartype.roar import BeartypeException
from beartype.vale import Is
def at_least(n):
    return Annotated[int, Is[lambda x: x >= n]]
def make_class():
    class Record: pass
    return Record
def verdicts(hint, obj):
    def v(fn):
        try:
            r = fn()
            return 'accept' if r is not False else 'reject'
        except BeartypeException as e:
            return 'reject'
        except Exception as e:
            return 'exc:' + type(e).__name__
    def f(x): return x
    f.__annotations__ = {'x': hint}
    g = beartype(f)
    def h(x): return x
    h.__annotations__ = {'return': hint}
    k = beartype(h)
    return {'is_bearable': v(lambda: is_bearable(obj, hint)), 'die_if_unbearable': v(lambda: die_if_unbearable(obj, hint)),
            'TypeHint.is_bearable': v(lambda: TypeHint(hint).is_bearable(obj)), 'TypeHint.die_if_unbearable': v(lambda: TypeHint(hint).die_if_unbearable(obj)),
            'param': v(lambda: g(obj)), 'return': v(lambda: k(obj))}
out = {}
lo, hi = at_least(3), at_least(10)
verdicts(lo, 5)
out['validator'] = dict(verdicts(hi, 5), expected='reject')
out['validator_in_list'] = dict(verdicts(list[hi], [5]), expected='reject')
R1, R2 = make_class(), make_class()
verdicts(R1, R1()); verdicts(list[R1], [R1()]); verdicts(Optional[R1], R1())
out['class'] = dict(verdicts(R2, R2()), expected='accept')
out['class_wrong'] = dict(verdicts(R2, R1()), expected='reject')
out['class_in_list'] = dict(verdicts(list[R2], [R2()]), expected='accept')
out['class_optional'] = dict(verdicts(Optional[R2], R2()), expected='accept')
N1, N2 = NewType('UserId', int), NewType('UserId', str)
verdicts(N1, 1)
out['newtype'] = dict(verdicts(N2, 'u'), expected='accept')
out['newtype_wrong'] = dict(verdicts(N2, 1), expected='reject')
print(json.dumps(out))
'''
    p = subprocess.run([PY, '-c', code], capture_output=True, text=True, env=impl_env(), timeout=300)
    try:
        return json.loads(p.stdout.strip().splitlines()[-1])
    except Exception:  # noqa
        return {'probe_failed': p.stderr[-600:] or 'no output'}


def replay(ctx, path):
    with open(path) as f:
        body = json.load(f)
    ctx.safe_regenerate(regenerate)
    case = body['record'].get('case')
    if body['record'].get('shape') and body['record'].get('pair'):
        from harness.props import c01
        return c01.replay(ctx, path)       # a call-shape row
    if case:
        obs = C.run_impl_cases([case])
        print('implementation:', json.dumps(obs[0])[:4000])
        for di, per in enumerate(obs[0].get('runs', [])):
            for kind, what, extra in signal_problems(case, per):
                ctx.report({'clause': kind, 'setting': sorted(case.get('conf') or {})},
                           {'case': case, 'draw': case['draws'][di], 'observed': extra}, what)
