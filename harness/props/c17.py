"""C17 — configurations are memoised, comparable and validated the same way every time.

proof:          coq/theories/Props/C17.v over the model coq/theories/C17/Conf.v
translator tie: Gen/C17Init.v (the import-time memo) regenerated from the repository
correspondence: creation histories replayed in forked children of a pristine interpreter
"""
import json
import os

from harness.common import (COQ, CoqFailure, coq_list, coq_opt, coq_str, coqc_file, parse_nat_list,
                            run_impl, shrink_list, write_if_changed)

PROP = 'theories/Props/C17.v'
NFIELDS = 20
BOOL_FIELDS = [2, 6, 7, 8, 9]
ENUM_FIELDS = {0: 0, 1: 0, 10: 1, 15: 2}
ENUM_VALUES = {0: [1, 2, 3], 1: [1, 2, 3, 4], 2: [1, 2, 3]}
NAMES_EXPECTED = ['claw_decor_place_func', 'claw_decor_place_type', 'claw_is_pep526', 'claw_skip_package_names',
                  'hint_overrides', 'is_color', 'is_debug', 'is_pep484_tower', 'is_pep557_fields', 'is_random',
                  'strategy', 'violation_door_type', 'violation_param_type', 'violation_return_type',
                  'violation_type', 'violation_verbosity', 'warning_cls_on_decorator_exception',
                  'claw_decoration_position_funcs', 'claw_decoration_position_types', 'is_check_pep557']


def coq_val(v):
    t = v[0]
    if t == 'none':
        return 'VNone'
    if t == 'unpassed':
        return 'VUnpassed'
    if t == 'warndefault':
        return 'VWarnDefault'
    if t == 'bool':
        return 'VBool true' if v[1] else 'VBool false'
    if t == 'int':
        return f'VInt ({v[1]})%Z'
    if t == 'float':
        return f'VFloat ({v[1]})%Z'
    if t == 'str':
        return f'VStr {coq_str(v[1])}'
    if t == 'names':
        return 'VNames ' + coq_list([coq_str(x) for x in v[1]])
    if t == 'nameslist':
        return 'VNamesList ' + coq_list([coq_str(x) for x in v[1]])
    if t == 'dict':
        return 'VDictRaw'
    if t == 'enum':
        return f'VEnum {v[1]} {v[2]}'
    if t == 'cls':
        return f'VCls {v[1]}'
    if t == 'frozen':
        return 'VFrozen ' + coq_list([f'({k}, {x})%nat' for k, x in v[1]])
    raise ValueError(f'no Coq encoding for {v}')


def coq_args(vals):
    return coq_list(['(' + coq_val(v) + ')' for v in vals])


DEFAULTS = [['enum', 0, 3], ['enum', 0, 2], ['bool', True], ['names', []], ['frozen', []], ['unpassed'],
            ['bool', False], ['bool', False], ['bool', False], ['bool', True], ['enum', 1, 2], ['none'],
            ['none'], ['none'], ['none'], ['enum', 2, 2], ['warndefault'], ['none'], ['none'], ['none']]


def full_args(kw):
    a = list(DEFAULTS)
    for i, v in kw.items():
        a[int(i)] = v
    return a


def coq_op(op):
    if op[0] == 'new':
        return 'CNew ' + coq_args(full_args(op[1]))
    return f'CRoundtrip {op[1]}'


def coq_obs(o):
    if o[0] == 'conf':
        return f'BConf {o[1]} {coq_args(o[2])} {coq_args(o[3])} {"true" if o[4] else "false"}'
    return {'param': 'BParam', 'typeerror': 'BTypeError', 'skip': 'BSkip'}[o[0]]


ENV = {None: 'None', 'True': '(Some (VBool true))', 'False': '(Some (VBool false))', 'None_': '(Some VNone)'}


def coq_case(h, obs):
    env = ENV['None_' if h['env'] == 'None' else h['env']]
    return ('{| k_env := %s; k_ops := %s; k_obs := %s; k_eq_pairs := %s |}' % (
        env, coq_list([coq_op(o) for o in h['ops']]), coq_list([coq_obs(o) for o in obs['out']]),
        coq_list([f'({i}, {j})%nat' for i, j in obs['eq_pairs']])))


HEADER = ('From Coq Require Import List ZArith String.\nFrom BT Require Import C17.Conf C17.Corr Gen.C17Init.\n'
          'Import ListNotations.\nOpen Scope string_scope.\n')


def representable(obs):
    if 'crash' in obs or obs.get('hash_bad'):
        return False
    for o in obs['out']:
        if o[0] == 'exc' or (o[0] == 'conf' and (o[1] < 0 or 'other' in json.dumps(o))):
            return False
    return True


def model_failing(ctx, tag, cases, observed):
    bad, todo = [], []
    for i, o in enumerate(observed):
        (todo if representable(o) else bad).append(i)
    text = HEADER + 'Definition cases : list case := %s.\n' % coq_list(
        ['\n  ' + coq_case(cases[i], observed[i]) for i in todo]) + \
        'Eval vm_compute in (failing init_memo cases).\n'
    path = os.path.join(ctx.workdir, f'cases_{tag}.v')
    with open(path, 'w') as f:
        f.write(text)
    out = coqc_file(path)
    bad += [todo[j] for j in parse_nat_list(out)]
    return sorted(bad)


# ------------------------------------------------------------------ generators

def gen_value(rng, i, kind):
    """kind: valid | alike (== a valid value but of another type) | invalid"""
    if i in BOOL_FIELDS or i == 19:
        if kind == 'valid':
            return ['bool', rng.random() < 0.5]
        if kind == 'alike':
            return [rng.choice(['int', 'float']), rng.choice([0, 1])]
        return rng.choice([['int', 2], ['str', 'yes'], ['none']] if i != 19 else [['int', 2], ['str', 'yes']])
    if i in ENUM_FIELDS or i in (17, 18):
        fam = ENUM_FIELDS.get(i, 0)
        if kind == 'valid':
            return ['enum', fam, rng.choice(ENUM_VALUES[fam])]
        if kind == 'alike':
            return ['int', rng.choice(ENUM_VALUES[fam])]
        return rng.choice([['enum', (fam + 1) % 3, 2], ['str', 'LAST'], ['bool', True]])
    if i == 3:
        if kind == 'valid':
            return ['names', rng.choice([[], ['a'], ['a.b'], ['a.b', 'c'], ['pkg.sub.mod']])]
        if kind == 'alike':
            return ['nameslist', rng.choice([[], ['a'], ['a.b']])]
        return rng.choice([['names', ['!bad']], ['names', ['a', '']], ['none'], ['int', 3]])
    if i == 4:
        if kind == 'valid':
            return ['frozen', rng.choice([[], [[3, 4]], [[1, 101]], [[1, 4]], [[1, 101], [2, 102]], [[2, 103]], [[5, 3]]])]
        if kind == 'alike':
            return ['dict']
        return rng.choice([['none'], ['int', 0], ['names', []]])
    if i == 5:
        if kind == 'valid':
            return rng.choice([['none'], ['bool', True], ['bool', False]])
        if kind == 'alike':
            return [rng.choice(['int', 'float']), rng.choice([0, 1])]
        return rng.choice([['str', 'True'], ['int', 2], ['str', '']])
    if i in (11, 12, 13, 14):
        if kind == 'valid':
            return rng.choice([['cls', 3], ['cls', 4], ['cls', 5], ['cls', 10], ['cls', 12], ['none'], ['cls', i - 11 if i < 14 else 0]])
        if kind == 'alike':
            return ['cls', rng.choice([0, 1, 2])]
        # falsy junk too: a validation written as `if value and ...` would let it through
        return rng.choice([['cls', 20], ['cls', 21], ['int', 1], ['str', 'ValueError'], ['int', 0], ['str', ''], ['bool', False]])
    if i == 16:
        if kind == 'valid':
            return rng.choice([['none'], ['cls', 10], ['cls', 11], ['cls', 12], ['warndefault']])
        if kind == 'alike':
            return ['warndefault']
        return rng.choice([['cls', 3], ['cls', 20], ['int', 0], ['str', 'UserWarning'], ['str', ''], ['bool', False]])
    raise ValueError(i)


def gen_kwargs(rng):
    if rng.random() < 0.12:
        # is_pep484_tower together with overrides of float/complex: valid when they agree with the
        # tower, a conflict (rejected by sanification, after validation) when they do not
        return {'7': ['bool', True],
                '4': ['frozen', rng.choice([[[1, 4]], [[2, 103]], [[1, 101]], [[1, 101], [2, 102]], [[3, 4]],
                                            [[1, 4], [3, 4]]])]}
    kw = {}
    for _ in range(rng.choice([0, 1, 1, 2, 2, 3, 4])):
        i = rng.choice(list(range(17)) + [6, 6, 7, 9, 3, 4, 5, 11, 14, 16, 17, 19])
        kind = rng.choices(['valid', 'alike', 'invalid'], [0.7, 0.15, 0.15])[0]
        kw[str(i)] = gen_value(rng, i, kind)
    return kw


def mutate_kwargs(rng, kw):
    """a look-alike of an earlier call: same options in another order, bools as ints, ..."""
    items = list(kw.items())
    rng.shuffle(items)
    out = {}
    for i, v in items:
        r = rng.random()
        if v[0] == 'bool' and r < 0.4:
            v = [rng.choice(['int', 'float']), 1 if v[1] else 0]
        elif v[0] in ('int', 'float') and v[1] in (0, 1) and r < 0.5:
            v = ['bool', bool(v[1])]
        out[i] = v
    if rng.random() < 0.2:
        out.update(gen_kwargs(rng))
    return out


def gen_history(rng, maxlen):
    ops = []
    news = []
    for _ in range(rng.randint(2, maxlen)):
        r = rng.random()
        if news and r < 0.15:
            kw = dict(rng.choice(news))          # the very same call again (valid or not)
            ops.append(['new', kw])
        elif news and r < 0.35:
            kw = mutate_kwargs(rng, rng.choice(news))
            ops.append(['new', kw])
            news.append(kw)
        elif ops and r < 0.5:
            ops.append(['rt', rng.randrange(len(ops))])
        else:
            kw = gen_kwargs(rng)
            ops.append(['new', kw])
            news.append(kw)
    env = rng.choices([None, 'True', 'False', 'None'], [0.8, 0.07, 0.07, 0.06])[0]
    return {'env': env, 'ops': ops}


def nontrivial(h, obs):
    confs = [o for o in obs['out'] if o[0] == 'conf']
    return len(confs) >= 2 and (len({o[1] for o in confs}) < len(confs) or any(o[0] != 'conf' for o in obs['out']))


# ------------------------------------------------------------------ known-finding oracles

def _one(h):
    return run_impl('c17_impl.py', {'cases': [h]})[0]


def oracle_lookalike(w):
    """F6: an invalid look-alike value is accepted when an equal-comparing valid
    configuration already exists."""
    cold = _one({'env': None, 'ops': [['new', w['invalid']]]})['out'][0][0]
    warm = _one({'env': None, 'ops': [['new', w['valid']], ['new', w['invalid']]]})['out'][1][0]
    return (cold == 'param' and warm == 'conf'), {'clause': 'uniform_validation', 'kind': 'lookalike-hit'}, \
        {'witness': w, 'cold': cold, 'after_valid': warm}


def oracle_unhashable(w):
    """F7: an unhashable invalid value escapes as a raw TypeError."""
    r = _one({'env': None, 'ops': [['new', w['invalid']]]})['out'][0][0]
    return r == 'typeerror', {'clause': 'uniform_validation', 'kind': 'unhashable-typeerror'}, \
        {'witness': w, 'observed': r}


def oracle_roundtrip(w):
    """F8: BeartypeConf(**conf.kwargs) is not conf."""
    o = _one({'env': None, 'ops': [['new', w['kwargs']], ['rt', 0]]})['out']
    return (o[0][0] == 'conf' and o[1][0] == 'conf' and o[0][1] != o[1][1]), \
        {'clause': 'roundtrip', 'kind': 'kwargs-materialise-defaults'}, {'witness': w, 'observed': [o[0][:2], o[1][:2]]}


KNOWN_ORACLES = {'F6': oracle_lookalike, 'F7': oracle_unhashable, 'F8': oracle_roundtrip}


# ------------------------------------------------------------------ main

def regenerate(ctx):
    facts = run_impl('c17_impl.py', {'facts': True})
    from harness.common import CoqFailure as _CF
    if facts['names'] != NAMES_EXPECTED or {int(k): v for k, v in facts['enum_values'].items()} != ENUM_VALUES:
        raise _CF('translator c17: option names / enum members of BeartypeConf changed',
                  json.dumps(facts))
    write_if_changed(os.path.join(COQ, 'theories/Gen/C17Facts.v'),
                     '(* GENERATED by harness/props/c17.py: which option enumerations are IntEnums (their members\n'
                     '   compare and hash equal to plain ints).  Do not edit. *)\n'
                     'From Coq Require Import List.\nImport ListNotations.\n'
                     'Definition int_enum_families : list nat := %s.\n' % coq_list(
                         [str(f) for f in facts['int_enum_families']]))
    init = run_impl('c17_impl.py', {'init': True})
    objs = ['{| c_key := %s; c_kwargs := %s; c_warnset := %s |}' % (
        coq_args(e['key']), coq_args(e['kwargs']), 'true' if e['warnset'] else 'false') for e in init]
    text = ('(* GENERATED by harness/props/c17.py: the configurations beartype itself creates at import time\n'
            '   (beartype._conf.confmain._beartype_conf_args_to_conf after `import beartype`).  Do not edit. *)\n'
            'From Coq Require Import List ZArith String.\nFrom BT Require Import C17.Conf.\n'
            'Import ListNotations.\nOpen Scope string_scope.\n'
            'Definition init_memo : memo := %s.\n'
            '(* the calls that recreate it from an empty memo (checked in Props/C17.v) *)\n'
            'Definition init_calls : list args := %s.\n' % (
                coq_list(['\n  ' + o for o in objs]),
                coq_list(['\n  (' + coq_args(e['key']) + ' ++ [VNone; VNone; VNone])%list' for e in init])))
    write_if_changed(os.path.join(COQ, 'theories/Gen/C17Init.v'), text)
    return init


def load_corpus():
    d = os.path.join(os.path.dirname(COQ), 'corpus', 'C17')
    out = []
    if os.path.isdir(d):
        for f in sorted(os.listdir(d)):
            if f.endswith('.json'):
                with open(os.path.join(d, f)) as fh:
                    out.append(json.load(fh))
    return out


def classify(h, obs):
    return {'clause': 'correspondence', 'kinds': ';'.join(o[0] for o in obs.get('out', [])),
            'crash': 'crash' in obs}


def run(ctx):
    ctx.rule = ('random BeartypeConf creation histories (2-8 calls; each passes 0-4 options with valid, '
                'equal-but-not-identical and invalid values; 35% of calls are look-alike re-orderings of an '
                'earlier call, 15% are BeartypeConf(**earlier.kwargs)); optional BEARTYPE_IS_COLOR; each history '
                'in a forked child of a pristine interpreter; non-trivial = at least two objects returned and '
                'either a memo hit or a rejected call; distinct = distinct history')
    ctx.assumptions += [
        'hash() agrees with == on the modelled value universe (bool/int/float look-alikes hash alike in CPython)',
        'is_identifier is abstracted (harness only generates names on which the abstraction agrees)',
        'the lock around __new__ is not modelled here (see C15)',
    ]
    ctx.safe_regenerate(regenerate)
    try:
        ctx.prove(PROP, extra_targets=['theories/C17/Corr.vo'])
        proof_ok = True
    except CoqFailure as e:
        proof_ok, proof_err = False, e
    for e in ctx.known:
        if e['status'] == 'known' and e['id'] in KNOWN_ORACLES:
            repro, shape, rec = KNOWN_ORACLES[e['id']](e['witness'])
            ctx.count('known_witness_replayed')
            if repro:
                ctx.report(shape, rec, e['what'])
    n = {'quick': 600, 'thorough': 20000}[ctx.tier]
    maxlen = {'quick': 8, 'thorough': 14}[ctx.tier]
    cases = load_corpus() + [gen_history(ctx.rng, maxlen) for _ in range(n)]
    failures = []
    for lo in range(0, len(cases), 300):
        part = cases[lo:lo + 300]
        obs = run_impl('c17_impl.py', {'cases': part})
        try:
            bad = model_failing(ctx, str(lo), part, obs)
        except CoqFailure as e:
            if proof_ok:
                ctx.broken('corr/c17 model evaluation', e.log)
                return
            bad = []
        for h, o in zip(part, obs):
            ctx.case(h, nontrivial(h, o) if 'out' in o else False,
                     sample={'history': h, 'observed': [x[:2] for x in o.get('out', [])]})
            for x in o.get('out', []):
                ctx.count('outcome:' + x[0])
            ctx.count('eq_pairs', len(o.get('eq_pairs', [])))
            for op in h['ops']:
                ctx.count('op:' + op[0])
            ctx.count('env:' + str(h['env']))
        failures += [(part[i], obs[i]) for i in bad]
        if len(failures) > 10:
            break
    for h, o in failures[:3]:
        def still(ops):
            # dropping an op shifts the indices round-trips refer to: keep only prefixes-compatible cuts
            h2 = {'env': h['env'], 'ops': ops}
            if any(op[0] == 'rt' and op[1] >= k for k, op in enumerate(ops)):
                return False
            o2 = run_impl('c17_impl.py', {'cases': [h2]})
            return bool(model_failing(ctx, 'shrink', [h2], o2))
        ops = shrink_list(h['ops'], still, max_steps=40)
        h2 = {'env': h['env'], 'ops': ops}
        o2 = run_impl('c17_impl.py', {'cases': [h2]})[0]
        ctx.report(classify(h2, o2), {'case': h2, 'implementation': o2,
                                      'expected': 'coq/theories/C17/Conf.v run_ops on the same history'},
                   'creation history on which BeartypeConf and the model disagree')
    ctx.extra['correspondence_failures'] = len(failures)
    # "from any thread": two threads asking for one new configuration under systematic single-preemption schedules over every
    # line of BeartypeConf.__new__ (the scheduler of C15): one shared object, usable as soon as it is handed out
    tcase = {'scenario': 'conf', 'seed': ctx.rng.getrandbits(20), 'mode': 'directed', 'max_targets': {'quick': 60, 'thorough': 100000}[ctx.tier]}
    try:
        t = run_impl('c15_impl.py', {'cases': [tcase]}, timeout=1800)[0]
    except Exception as e:  # noqa
        t = {'problems': ['the threaded probe crashed: ' + str(e)[-300:]], 'exceptions': [], 'schedules': 0}
    ctx.evaluations += t.get('schedules', 0)
    ctx.extra['threaded_schedules'] = t.get('schedules', 0)
    if t.get('problems') or t.get('exceptions'):
        failures.append((None, None))
        ctx.report({'clause': 'memo_identity_threads'}, {'threaded_case': tcase, 'problems': t.get('problems', [])[:5], 'exceptions': t.get('exceptions', [])[:5],
                                                          'failing_plans': t.get('failing_plans')},
                   'two threads asking for one new configuration: not one shared, fully built object')
    if not proof_ok and not failures:
        ctx.broken(f'{PROP} ({proof_err.what})', proof_err.log)


def replay(ctx, path):
    with open(path) as f:
        body = json.load(f)
    ctx.safe_regenerate(regenerate)
    case = body['record'].get('case')
    if body['record'].get('threaded_case'):
        t = run_impl('c15_impl.py', {'cases': [body['record']['threaded_case']]}, timeout=1800)[0]
        print(json.dumps({k: t.get(k) for k in ('problems', 'exceptions', 'failing_plans', 'schedules')})[:3000])
        if t.get('problems') or t.get('exceptions'):
            ctx.report(body.get('shape') or {'clause': 'memo_identity_threads'}, {'threaded_case': body['record']['threaded_case'],
                                                                                  'problems': t.get('problems', [])[:5]}, 'still fails')
        return
    if case:
        o = run_impl('c17_impl.py', {'cases': [case]})
        print('implementation:', json.dumps(o[0]))
        bad = model_failing(ctx, 'replay', [case], o)
        print('model agrees' if not bad else 'model DISAGREES')
        if bad:
            ctx.report(classify(case, o[0]), {'case': case, 'implementation': o[0]}, 'replayed disagreement')
