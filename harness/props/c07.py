"""C07 — string and postponed annotations are checked exactly like evaluated ones.  See DESIGN.md 5/C07.

proof:          coq/theories/Props/C07.v (C07/Fwd.v name-resolution machine, C07/Proofs.v)
translator tie: none (hand-written model); the resolution order the model assumes is read off
                fwdrefmeta._resolve_hint_pep484_ref_str and fwdscopemake.make_scope_forward_decor_curr as a sanity check
correspondence: generated programs, each in a fresh module: 9 hint shapes around a class K x placements (module level, closure
                1-3 functions deep, method of classes nested 1-3 deep decorated per method or per class) x spellings (evaluated
                where Python allows it, quoted, only the name quoted, `from __future__ import annotations`) x where K lives
                (module global / enclosing-function local / class attribute / the class itself / its root class / nowhere) x
                when it is defined (before decoration, after it, after a first call, never; the enclosing function still
                running or returned): every call's verdict (6 objects: instance, subclass instance, unrelated, unrelated with
                the same class name, int, None, each wrapped to the shape) is compared with the evaluated hint's verdict (the
                property) and with the model's prediction (the correspondence)
"""
import ast
import json
import os

from harness.common import REPO, CoqFailure, coq_list, coqc_many, parse_nat_list, run_impl

PROP = 'theories/Props/C07.v'
HEADER = 'From Coq Require Import List Bool Arith.\nFrom BT Require Import C07.Fwd C07.Corr.\nImport ListNotations.\n'
SHAPES = ['K', 'List[K]', 'Optional[K]', 'Union[K, int]', 'Dict[str, K]', 'Tuple[K, ...]', 'Tuple[int, K]', 'List[Optional[K]]', 'type[K]']
EARLY = ('attr_shadows_local', 'sibling_attr_leak', 'global_early', 'local_early', 'class_attr', 'attr_shadows_global', 'outer_attr_hidden', 'local_shadows_global')
LEAVES_NONE = [('unrelated', 3), ('int', 5), ('none', 6)]
LEAVES_K = [('instance', 1), ('subclass_instance', 2), ('unrelated', 3), ('same_name_unrelated', 4), ('int', 5), ('none', 6)]
OBS = {'ok': 0, 'violation': 1, 'fwdref': 2}


def regenerate(ctx):
    pass


def all_specs():
    out = []

    def sp(target):
        return ['evaluated', 'quoted', 'quoted_inner', 'postponed'] if target in EARLY else ['quoted', 'quoted_inner', 'postponed']
    for shape in SHAPES:
        for target in ('global_early', 'global_late', 'never'):
            for order in (['call_define_call', 'define_call'] if target == 'global_late' else ['-']):
                out.append({'placement': 'module', 'depth': 0, 'shape': shape, 'target': target, 'order': order, 'spellings': sp(target)})
        for depth in (1, 2, 3):
            for target in ('local_early', 'local_late', 'global_early', 'global_late', 'never', 'local_shadows_global', 'two_activations'):
                orders = ['call_define_call', 'define_call', 'returned_only'] if target == 'local_late' else \
                    ['call_define_call', 'define_call'] if target == 'global_late' else ['-']
                for order in orders:
                    out.append({'placement': 'closure', 'depth': depth, 'shape': shape, 'target': target, 'order': order, 'spellings': sp(target)})
            for target in ('class_attr', 'self_class', 'root_class', 'global_early', 'global_late', 'never', 'attr_shadows_global', 'outer_attr_hidden'):
                for decor in ('function', 'class'):
                    if target == 'outer_attr_hidden' and depth < 2:
                        continue
                    if decor == 'function' and target == 'self_class' and depth >= 2:
                        continue      # a nested class's own name is no module global: only class decoration knows the class
                    for order in (['call_define_call', 'define_call'] if target == 'global_late' else ['-']):
                        out.append({'placement': 'method', 'depth': depth, 'shape': shape, 'target': target, 'order': order, 'decor': decor,
                                    'spellings': sp(target)})
        for depth in (1, 2):
            for decor in ('function', 'class'):
                out.append({'placement': 'method_in_function', 'depth': depth, 'shape': shape, 'target': 'sibling_attr_leak', 'order': '-',
                            'decor': decor, 'spellings': ['evaluated', 'quoted', 'quoted_inner', 'postponed']})
                out.append({'placement': 'method_in_function', 'depth': depth, 'shape': shape, 'target': 'attr_shadows_local', 'order': '-',
                            'decor': decor, 'spellings': ['evaluated', 'quoted', 'quoted_inner', 'postponed']})
    return out


def calls(k_defined):
    return [('call', c) for _, c in (LEAVES_K if k_defined else LEAVES_NONE)]


def model_case(spec):
    """the program as the model sees it: site, initial environments, events (the same for every string spelling)"""
    pl, tg, order = spec['placement'], spec['target'], spec['order']
    g0, pl0, names, attrs, nested, alive = [], [], [], [], False, False
    ev = []
    if pl == 'module':
        if tg == 'global_early':
            g0 = [1]
            ev = calls(True)
        elif tg == 'global_late':
            ev = (calls(False) if order == 'call_define_call' else []) + [('defglobal', 1)] + calls(True) + calls(True)
        else:
            ev = calls(False) + calls(False)
    elif pl == 'closure':
        nested, alive = True, True
        if tg == 'local_early':
            pl0 = [1]
            ev = calls(True) + [('return',)] + calls(True)
        elif tg == 'two_activations':
            # two proxies, two lives: the first activation resolves from its running frame, the second only after its return
            ev = [('deflocal', 1)] + calls(True)
            second = [('deflocal', 1), ('return',)] + calls(True)
            return {'nested': True, 'alive': True, 'g0': [], 'pl0': [], 'names': [], 'attrs': [], 'events': ev, 'second': second}
        elif tg == 'local_shadows_global':
            g0, pl0 = [7], [1]
            ev = calls(True) + [('return',)] + calls(True)
        elif tg == 'local_late':
            ev = (calls(False) if order == 'call_define_call' else []) + [('deflocal', 1)] + \
                (calls(True) if order != 'returned_only' else []) + [('return',)] + calls(True)
        elif tg == 'global_early':
            g0 = [1]
            ev = calls(True) + [('return',)] + calls(True)
        elif tg == 'global_late':
            ev = [('return',)] + (calls(False) if order == 'call_define_call' else []) + [('defglobal', 1)] + calls(True)
        else:
            ev = calls(False) + [('return',)] + calls(False)
    elif pl == 'method_in_function' and tg == 'attr_shadows_local':
        # class variable K (1) over the enclosing function's local K (7): class decoration sees the class's attributes first;
        # decoration of the method inside the class body sees the body's locals before the function's
        nested, alive = True, True
        if spec['decor'] == 'class':
            attrs, pl0 = [1], [7]
        else:
            pl0 = [1, 7]
        ev = calls(True) + [('return',)] + calls(True)
    elif pl == 'method_in_function':
        # the classes live in a function: its frame is found either way; the global K is what the name means
        nested, alive, g0 = True, True, [1]
        ev = calls(True) + [('return',)] + calls(True)
    else:
        by_class = spec['decor'] == 'class'
        # per-method decoration happens inside the class body (a frame that is gone by the time of the calls);
        # class decoration happens afterwards, with the class stack instead of a frame
        nested, alive = (not by_class), (not by_class)
        pre = [] if by_class else [('return',)]
        if tg == 'class_attr':
            if by_class:
                attrs = [1]
            else:
                pl0 = [1]
            ev = pre + calls(True)
        elif tg == 'attr_shadows_global':
            g0 = [7]
            if by_class:
                attrs = [1]
            else:
                pl0 = [1]
            ev = pre + calls(True)
        elif tg == 'outer_attr_hidden':
            g0 = [1]
            ev = pre + calls(True)
        elif tg in ('self_class', 'root_class'):
            if by_class:
                names = [1]
                ev = calls(True)
            else:
                ev = pre + [('defglobal', 1)] + calls(True)      # the finished class becomes a module global
        elif tg == 'global_early':
            g0 = [1]
            ev = pre + calls(True)
        elif tg == 'global_late':
            ev = pre + (calls(False) if order == 'call_define_call' else []) + [('defglobal', 1)] + calls(True)
        else:
            ev = pre + calls(False) + calls(False)
    return {'nested': nested, 'alive': alive, 'g0': g0, 'pl0': pl0, 'names': names, 'attrs': attrs, 'events': ev}


def free_flag(shape, leaf):
    return (leaf == 6 and shape in ('Optional[K]', 'List[Optional[K]]')) or (leaf == 5 and shape == 'Union[K, int]')


def coq_case(spec, m, obs):
    env = lambda l: coq_list(['(kname, %d)' % c for c in l])  # noqa: E731
    evs, free = [], []
    for e in m['events']:
        if e[0] == 'call':
            evs.append('Call %d' % e[1])
            free.append('true' if free_flag(spec['shape'], e[1]) else 'false')
        elif e[0] == 'defglobal':
            evs.append('DefGlobal kname %d' % e[1])
        elif e[0] == 'deflocal':
            evs.append('DefLocal kname %d' % e[1])
        else:
            evs.append('ParentReturns')
    return ('{| f_site := {| s_nested := %s; s_class_names := %s; s_class_attrs := %s |}; f_globals0 := %s; f_plocals0 := %s; '
            'f_alive0 := %s; f_events := %s; f_free := %s; f_obs := %s |}') % (
        str(m['nested']).lower(), env(m['names']), env(m['attrs']), env(m['g0']), env(m['pl0']), str(m['alive']).lower(),
        coq_list(evs), coq_list(free), coq_list([str(x) for x in obs]))


def resolution_order_as_modelled():
    """sanity: the source still shows the order module global -> parent frame locals -> fake proxy, and memoises"""
    src = open(os.path.join(REPO, 'beartype/_check/forward/reference/_cls/fwdrefmeta.py')).read()
    tree = ast.parse(src)
    f = next((n for n in ast.walk(tree) if isinstance(n, ast.FunctionDef) and n.name == '_resolve_hint_pep484_ref_str'), None)
    if f is None:
        return ['_resolve_hint_pep484_ref_str is gone']
    text = ast.unparse(f)
    order = [text.find('import_module_attr_or_sentinel'), text.find('find_frame_codeobject_or_none'), text.find('proxy_hint_pep484_ref_str_fake')]
    bad = []
    if -1 in order or order != sorted(order):
        bad.append('resolution order changed: ' + str(order))
    if '_cache_ref_proxy_referent_hint' not in src:
        bad.append('resolved referents are no longer memoised')
    return bad


def run(ctx):
    ctx.rule = ('programs = 9 hint shapes x {module; closure depth 1-3; method of classes nested 1-3 deep, decorated per method or per '
                'class} x {K a module global / a local of the enclosing function / a class attribute / the class itself / the root class / '
                'defined nowhere} x {defined before decoration; after it; after a first call; never; enclosing function running / returned} '
                'x {evaluated (when Python can), quoted, name-only quoted, postponed}; each probe calls with 6 (3 while K is undefined) '
                'objects wrapped to the shape; quick = two hint shapes per (placement, depth, target, order, decoration) family, thorough = all nine; '
                'non-trivial = K not bound at decoration, or placement not module; distinct = distinct (family, spelling)')
    ctx.assumptions += ['the own name of a class nested inside another class, used by a method decorated individually (not through the class), '
                        'is outside the generator: no module global of that name ever exists, and Python itself could not evaluate it',
                        'single-name annotations; one deferred name per program',
                        'PARTIAL: eval() of the annotation text and frame introspection are CPython\'s; verdicts inside larger hints are C01-C03\'s']
    proof_err = None
    try:
        ctx.prove(PROP, extra_targets=['theories/C07/Corr.vo'])
    except CoqFailure as e:
        proof_err = e
        from harness.common import coq_make
        try:
            coq_make(['theories/C07/Corr.vo'])
        except CoqFailure as e2:
            ctx.broken('corr/c07 model does not build', e2.log)
            return
    failures = 0
    specs = all_specs()
    ctx.extra['program_families'] = len(specs)
    if ctx.tier == 'quick':
        # stratified: every (placement, depth, target, order, decoration) family with one or two of the nine hint shapes
        groups = {}
        for sp_ in specs:
            groups.setdefault((sp_['placement'], sp_['depth'], sp_['target'], sp_['order'], sp_.get('decor')), []).append(sp_)
        specs = []
        for key in sorted(groups, key=str):
            specs += ctx.rng.sample(groups[key], min(len(groups[key]), 2))
    cdir = os.path.join(os.path.dirname(os.path.dirname(os.path.dirname(os.path.abspath(__file__)))), 'corpus', 'C07')
    if os.path.isdir(cdir):                      # minimised past failures run first
        for fn in sorted(os.listdir(cdir)):
            with open(os.path.join(cdir, fn)) as f:
                specs.insert(0, json.load(f))
    specs = [e['witness'] for e in ctx.known if e['status'] == 'known' and isinstance(e.get('witness'), dict)] + specs
    rows, index = [], []
    for lo in range(0, len(specs), 130):
        part = specs[lo:lo + 130]
        obs = run_impl('c07_impl.py', {'cases': part}, timeout=1800)
        for spec, o in zip(part, obs):
            m = model_case(spec)
            ncalls = sum(1 for e in m['events'] + m.get('second', []) if e[0] == 'call')
            nested = spec['placement'] == 'closure' or (spec['placement'] == 'method' and spec.get('decor') == 'function')
            per_spelling = {}
            for spl, r in o.items():
                ctx.case([spec, spl], spec['target'] not in EARLY or spec['placement'] != 'module',
                         sample={'spec': spec, 'spelling': spl, 'source': r['source'], 'rows': r['rows'][:4]} if spec['target'] == 'local_late' else None)
                ctx.count('placement:' + spec['placement'])
                ctx.count('target:' + spec['target'])
                ctx.count('spelling:' + spl)
                if 'error' in r:
                    failures += 1
                    ctx.report({'clause': 'program_failed', 'placement': spec['placement'], 'target': spec['target'], 'spelling': spl, 'exc': r['error']['cls']},
                               {'spec': spec, 'spelling': spl, 'observed': r}, 'a generated program raised outside a probed call: ' + r['error']['cls'])
                    continue
                ctx.evaluations += len(r['rows'])
                # the property: every verdict is the evaluated hint's (or the forward-reference exception while K is undefined)
                for row in r['rows']:
                    if row['got'] not in row['expected']:
                        shape = {'clause': 'verdict', 'nested': nested, 'target': spec['target'], 'order': spec['order'], 'stage': row['stage'],
                                 'obj': row['obj'], 'got': row['got']}
                        if ctx.report(shape, {'spec': spec, 'spelling': spl, 'row': row, 'source': r['source'], 'rows': r['rows']},
                                      'a string annotation is not checked like the evaluated one: %s at stage %s gave %s, expected %s' % (
                                          row['obj'], row['stage'], row['got'], '/'.join(row['expected']))) == 'violation':
                            failures += 1
                            break
                per_spelling[spl] = [row['got'] for row in r['rows']]
                if spl == 'evaluated':
                    continue                      # the model is about strings; evaluated programs are the reference
                if len(r['rows']) != ncalls or any(row['got'] not in OBS for row in r['rows']):
                    failures += 1
                    ctx.report({'clause': 'unexpected_outcome', 'placement': spec['placement'], 'target': spec['target']},
                               {'spec': spec, 'spelling': spl, 'observed': r}, 'a probe ended with an exception that is neither a violation nor a forward-reference error')
                    continue
                obs_all = [OBS[row['got']] for row in r['rows']]
                if 'second' in m:
                    n1 = sum(1 for e in m['events'] if e[0] == 'call')
                    rows.append(coq_case(spec, m, obs_all[:n1]))
                    index.append((spec, spl, r))
                    rows.append(coq_case(spec, dict(m, events=m['second']), obs_all[n1:]))
                    index.append((spec, spl, r))
                    continue
                rows.append(coq_case(spec, m, obs_all))
                index.append((spec, spl, r))
            # all spellings of one program agree with each other
            vecs = {json.dumps(v) for v in per_spelling.values()}
            if len(vecs) > 1:
                shape = {'clause': 'spellings_differ', 'placement': spec['placement'], 'target': spec['target'], 'order': spec['order']}
                if ctx.report(shape, {'spec': spec, 'verdicts': per_spelling}, 'two spellings of the same annotation are checked differently') == 'violation':
                    failures += 1
        if failures > 12:
            break
    shard, paths = 300, []
    for lo in range(0, len(rows), shard):
        path = os.path.join(ctx.workdir, f'c07_{lo}.v')
        with open(path, 'w') as f:
            f.write(HEADER + 'Definition cases : list fcase := %s.\nEval vm_compute in (ffailing cases).\n' % coq_list(['\n ' + r for r in rows[lo:lo + shard]]))
        paths.append(path)
    for si, out in enumerate(coqc_many(paths, jobs=8)):
        for j in parse_nat_list(out)[:3]:
            failures += 1
            spec, spl, r = index[si * shard + j]
            ctx.report({'clause': 'correspondence', 'placement': spec['placement'], 'target': spec['target'], 'order': spec['order']},
                       {'spec': spec, 'spelling': spl, 'model': model_case(spec), 'source': r['source'], 'rows': r['rows']},
                       'the model (C07/Fwd.v) and beartype disagree on a program')
    bad = resolution_order_as_modelled()
    ctx.extra['resolution_order_check'] = bad or 'as modelled'
    if bad and not failures:
        failures += 1
        ctx.broken('translator/resolution_order: ' + '; '.join(bad), json.dumps(bad), shape={'broken': 'resolution_order'})
    # deferred names whose referent is itself a PEP hint (user generics over subscripted containers, typed dictionaries,
    # protocols, aliases), alone and as a child hint: the string must check like the evaluated annotation
    try:
        prow = run_impl('c07_pephints.py', {}, timeout=600)
    except Exception as e:  # noqa
        prow = [{'error': str(e)[-600:], 'family': 'crash'}]
    ctx.evaluations += len(prow)
    ctx.extra['pep_referent_rows'] = len(prow)
    for r in prow:
        if 'error' in r or r['string'] != r['evaluated']:
            failures += 1
            ctx.report({'clause': 'string_vs_evaluated', 'stream': 'pep_referent', 'family': r.get('family')}, r,
                       'a deferred name resolving to a class that is itself a PEP hint is not checked like the evaluated annotation')
            if failures > 12:
                break
    if proof_err is not None and not failures:
        ctx.broken(f'{PROP} ({proof_err.what})', proof_err.log)


def replay(ctx, path):
    with open(path) as f:
        body = json.load(f)
    spec = body['record'].get('spec')
    if body['record'].get('family') and body['record'].get('placement'):
        want = body['record']
        for r in run_impl('c07_pephints.py', {}, timeout=600):
            if all(r.get(k) == want.get(k) for k in ('family', 'text', 'placement', 'object')):
                print(json.dumps(r))
                if 'error' in r or r['string'] != r['evaluated']:
                    ctx.report(body.get('shape') or {'clause': 'string_vs_evaluated'}, r, 'the row still disagrees')
        return
    if spec:
        print(json.dumps(run_impl('c07_impl.py', {'cases': [spec]})[0])[:4000])
