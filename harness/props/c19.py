"""C19 — is_subhint is a sound preorder and TypeHint wrappers are coherent.  See DESIGN.md 5/C19.

proof:          coq/theories/Props/C19.v (Core/Door.v is_subhint; Core/DoorProofs.v)
translator tie: shared core (Gen/{ClassTable,SignSets}.v)
correspondence: generated triples of hints biased to related ones (one derived from the other by widening or
                narrowing a node): beartype.door.is_subhint on all nine ordered pairs against the model; the order
                laws and soundness against is_bearable / a Python full-depth judgement on objects generated from the
                first hint; TypeHint wrapper coherence (identity, ==/hash, len/iter/getitem/contains/args)
"""
import copy
import json
import os

from harness import coreir as IR
from harness.common import CoqFailure, coq_list, coqc_many, parse_nat_list, run_impl
from harness.translate.run import regenerate_core

PROP = 'theories/Props/C19.v'
HEADER = ('From Coq Require Import List ZArith String.\n'
          'From BT Require Import Gen.ClassTable Gen.SignSets Core.PyVal Core.Expr Core.Hint Core.Door Core.CorrDoor.\n'
          'Import ListNotations.\nOpen Scope string_scope.\n')
R3 = {'T': 'RT', 'F': 'RF', 'X': 'RX'}

SUPER = {'bool': ['int', 'object'], 'int': ['object'], 'str': ['object', 'Sequence', 'Collection'], 'UserB': ['UserA', 'object'],
         'UserA': ['object'], 'UserC': ['object'], 'float': ['object'], 'bytes': ['object', 'Sequence'],
         'NoneType': ['object'], 'list': ['MutableSequence', 'Sequence', 'Collection', 'object']}
WIDER_SIGN = {'List': ['MutableSequence', 'Sequence', 'Collection', 'Iterable', 'Container', 'Reversible'],
              'MutableSequence': ['Sequence', 'Collection'], 'Sequence': ['Collection', 'Reversible', 'Iterable'],
              'Tuple': ['Sequence', 'Collection'], 'Set': ['MutableSet', 'AbstractSet', 'Collection'],
              'FrozenSet': ['AbstractSet', 'Collection'], 'MutableSet': ['AbstractSet', 'Collection'],
              'AbstractSet': ['Collection', 'Iterable'], 'Deque': ['MutableSequence', 'Sequence'],
              'KeysView': ['AbstractSet', 'Collection'], 'ValuesView': ['Collection'], 'Collection': ['Iterable', 'Container']}
WIDER_MAP = {'Dict': ['MutableMapping', 'Mapping'], 'DefaultDict': ['Dict', 'MutableMapping'], 'OrderedDict': ['Dict', 'Mapping'],
             'MutableMapping': ['Mapping'], 'ChainMap': ['MutableMapping', 'Mapping']}


def regenerate(ctx):
    regenerate_core()


def sanitise(h):
    """the C19 universe: Any is typing.Any, object is the class object, no shallow hints, no type[Any]"""
    t = h[0]
    if t == 'any':
        return ['any', 'Any'] if h[1] == 'Any' else ['cls', 'object']
    if t == 'shallow':
        return ['cls', 'int']
    if t == 'type':
        return h if h[1] and 'type' not in h[1] else ['type', ['int']]
    if t == 'union':
        kids = []
        for x in h[1]:
            y = sanitise(x)
            if y not in kids and y[0] not in ('union', 'optional'):
                kids.append(y)
        return ['union', kids] if len(kids) > 1 else kids[0]
    if t == 'optional':
        y = sanitise(h[1])
        return ['optional', y] if y[0] not in ('union', 'optional') and y != ['cls', 'NoneType'] else y
    if t == 'cont':
        return ['cont', h[1], sanitise(h[2])]
    if t == 'map':
        return ['map', h[1], sanitise(h[2]), sanitise(h[3])]
    if t == 'counter':
        return ['counter', sanitise(h[1])]
    if t == 'tuplefixed':
        return ['tuplefixed', [sanitise(x) for x in h[1]]]
    if t == 'annot':
        return ['annot', sanitise(h[1]), h[2]]
    return h


def subterms(h, path=()):
    yield path, h
    t = h[0]
    if t in ('union', 'tuplefixed'):
        for i, x in enumerate(h[1]):
            yield from subterms(x, path + (1, i))
    elif t == 'optional':
        yield from subterms(h[1], path + (1,))
    elif t == 'cont':
        yield from subterms(h[2], path + (2,))
    elif t == 'map':
        yield from subterms(h[2], path + (2,))
        yield from subterms(h[3], path + (3,))
    elif t in ('counter', 'annot'):
        yield from subterms(h[1], path + (1,))


def replace(h, path, new):
    if not path:
        return new
    h = list(h)
    if len(path) >= 2 and isinstance(h[path[0]], list) and path[0] == 1 and h[0] in ('union', 'tuplefixed'):
        kids = list(h[1])
        kids[path[1]] = replace(kids[path[1]], path[2:], new)
        h[1] = kids
        return h
    h[path[0]] = replace(h[path[0]], path[1:], new)
    return h


def widen(rng, node):
    """a hint intended to be a superhint of node (the model and beartype are the judges)"""
    t = node[0]
    opts = [['any', 'Any'], ['cls', 'object']]
    if t == 'cls':
        opts += [['cls', c] for c in SUPER.get(node[1], [])]
        opts += [['union', [node, ['cls', 'bytes' if node[1] != 'bytes' else 'str']]], ['optional', node]]
    elif t == 'literal':
        v = node[1][0]
        cls = {'int': 'int', 'str': 'str', 'bool': 'bool', 'none': 'NoneType', 'bytes': 'bytes'}[v[0]]
        opts += [['cls', cls], ['literal', node[1] + [['int', 99]]]]
    elif t == 'cont':
        opts += [['cont', s, node[2]] for s in WIDER_SIGN.get(node[1], [])]
        opts += [['cls', IR.U.SIGN_ORIGIN[node[1]][1]], ['cont', node[1], ['any', 'Any']], ['cont', node[1], ['cls', 'object']]]
    elif t == 'map':
        opts += [['map', s, node[2], node[3]] for s in WIDER_MAP.get(node[1], [])]
        opts += [['map', node[1], node[2], ['cls', 'object']], ['cont', 'Collection', node[2]]]
    elif t == 'tuplefixed':
        opts += [['cls', 'tuple'], ['cont', 'Tuple', ['cls', 'object']]]
        if node[1]:
            opts.append(['cont', 'Tuple', ['union', node[1]]] if len(node[1]) > 1 and all(x[0] != 'union' for x in node[1])
                        and len({json.dumps(x) for x in node[1]}) > 1 else ['cont', 'Tuple', node[1][0]])
    elif t == 'annot':
        opts += [node[1], ['annot', node[1], node[2][:1]],
                 ['annot', ['cls', rng.choice(['int', 'str', 'bool', 'object', 'UserA'])], node[2]],
                 ['annot', ['cls', rng.choice(['int', 'str', 'bool'])], node[2]]]
    elif t == 'union':
        opts += [['union', node[1] + [['cls', 'bytes']]]] if ['cls', 'bytes'] not in node[1] else []
    elif t == 'type':
        opts += [['cls', 'type'], ['type', ['object']]]
    elif t == 'counter':
        opts += [['cls', 'Counter'], ['map', 'Dict', node[1], ['cls', 'int']]]
    return sanitise(rng.choice(opts))


CLASH = [['union', [['cont', 'Collection', ['cls', 'str']], ['map', 'Dict', ['cls', 'str'], ['cls', 'int']]]],
         ['union', [['map', 'Mapping', ['cls', 'int'], ['cls', 'str']], ['cont', 'Iterable', ['cls', 'int']], ['cls', 'bytes']]],
         ['cont', 'List', ['union', [['cont', 'Container', ['cls', 'str']], ['map', 'OrderedDict', ['cls', 'str'], ['cls', 'int']]]]]]


def gen_triple(rng, depth):
    a = sanitise(IR.gen_hint(rng, rng.choice([0, 1, 1, 2, 2, depth])))
    if rng.random() < 0.04:
        a = rng.choice(CLASH)
    elif rng.random() < 0.08:
        a = ['annot', ['cls', rng.choice(['str', 'int', 'UserB'])], [IR.gen_vexp(rng, 1)]]
    def derive(h):
        r = rng.random()
        if r < 0.2:
            return sanitise(IR.gen_hint(rng, rng.choice([0, 1, 2])))
        if r < 0.3:
            return copy.deepcopy(h)
        nodes = list(subterms(h))
        path, node = rng.choice(nodes)
        return sanitise(replace(h, path, widen(rng, node)))
    b = derive(a)
    c = derive(b)
    hs = [a, b, c]
    if rng.random() < 0.3:
        rng.shuffle(hs)
    return hs


def has(h, kind):
    return any(n[0] == kind for _, n in subterms(h))


def run(ctx):
    ctx.rule = ('triples (A, B, C) of hints over classes (incl. object), Any, unions / Optional, literals, Annotated with '
                'beartype validators, fixed and variadic tuples, the one-argument container signs, mapping signs, Counter, '
                'type[...]; B derived from A and C from B by widening a random node (superclass, wider sign, union member '
                'added, Any/object, literal to its class, Annotated to its metahint, fixed to variadic tuple) 70%, unrelated '
                '20%, equal 10%; all nine ordered pairs per triple; objects generated to satisfy A; non-trivial = some hint '
                'has depth >= 2; distinct = distinct triple')
    ctx.assumptions += ['callables, NewTypes, TypeVars and generics are outside the model (wrapper coherence for them is checked '
                        'on the implementation only)', 'validator metadata equality is modelled structurally (validators are memoised)']
    ctx.safe_regenerate(regenerate)
    proof_err = None
    try:
        ctx.prove(PROP, extra_targets=['theories/Core/CorrDoor.vo'])
    except CoqFailure as e:
        proof_err = e
        from harness.common import coq_make
        try:
            coq_make(['theories/Core/CorrDoor.vo'])
        except CoqFailure as e2:
            ctx.broken('corr/c19 model does not build', e2.log)
            return
    n = {'quick': 700, 'thorough': 20000}[ctx.tier]
    triples = [gen_triple(ctx.rng, 3) for _ in range(n)]
    cdir = os.path.join(os.path.dirname(os.path.dirname(os.path.dirname(os.path.abspath(__file__)))), 'corpus', 'C19')
    if os.path.isdir(cdir):
        for f in sorted(os.listdir(cdir)):
            with open(os.path.join(cdir, f)) as fh:
                triples.insert(0, json.load(fh)['hints'])
    failures, rows, index = 0, [], []
    for lo in range(0, len(triples), 200):
        part = triples[lo:lo + 200]
        cases = []
        for hs in part:
            vals = []
            for _ in range(3):
                try:
                    v = IR.gen_sat(ctx.rng, hs[0])
                    if IR.valid_value(v):
                        vals.append(v)
                except Exception:  # noqa
                    pass
            cases.append({'hints': hs, 'values': vals, 'coherence': True})
        obs = run_impl('c19_impl.py', {'cases': cases}, timeout=1200)
        for case, res in zip(cases, obs):
            hs = case['hints']
            depth = max(len(p) for h in hs for p, _ in subterms(h))
            ctx.case(hs, depth >= 2, sample={'hints': hs, 'pairs': res['pairs']})
            ctx.evaluations += 8
            P = res['pairs']
            for k, v in P.items():
                ctx.count('answer:' + v[:3])
            anyfree = [not has(h, 'any') for h in hs]
            # order laws and soundness, directly on the implementation
            for i in range(3):
                if P[f'{i}{i}'] != 'T':
                    failures += report(ctx, {'clause': 'reflexivity', 'root': hs[i][0], 'answer': P[f'{i}{i}'][:1]},
                                       {'hint': hs[i], 'answer': P[f'{i}{i}']},
                                       'is_subhint(A, A) is not True')
            for i in range(3):
                for j in range(3):
                    for k in range(3):
                        if len({i, j, k}) == 3 and P[f'{i}{j}'] == 'T' and P[f'{j}{k}'] == 'T' and P[f'{i}{k}'] != 'T':
                            through_any = any(has(h_, 'any') or '["cls", "object"]' in json.dumps(h_) for h_ in (hs[i], hs[j], hs[k]))     # the class object admits everything, like Any
                            failures += report(ctx, {'clause': 'transitivity', 'through_any': through_any,
                                                     'annotated': any(has(h, 'annot') for h in hs)},
                                               {'A': hs[i], 'B': hs[j], 'C': hs[k], 'A<=C': P[f'{i}{k}']},
                                               'A <= B and B <= C but not A <= C')
            for vi, v in enumerate(case['values']):
                for j in range(3):
                    if P[f'0{j}'] == 'T' and anyfree[0] and anyfree[j] and res['sat'][vi][0] and not res['sat'][vi][j]:
                        failures += report(ctx, {'clause': 'soundness', 'annotated_pair': has(hs[0], 'annot') and has(hs[j], 'annot'),
                                                 'literal': has(hs[0], 'literal') and has(hs[j], 'literal')},
                                           {'A': hs[0], 'B': hs[j], 'object': v, 'bearable': res['bearable'][vi]},
                                           'is_subhint(A, B) holds but an object satisfying A does not satisfy B')
            for h, co in zip(hs, res.get('coherence', [])):
                bad = [k for k, v in co.items() if v is False or k == 'error']
                if bad and str(co.get('error', '')).startswith('BeartypeDoorIsSubhintException'):
                    # TypeHint(h) == TypeHint(h) raising is the partiality of is_subhint (same finding as reflexivity)
                    failures += report(ctx, {'clause': 'reflexivity', 'root': h[0], 'answer': 'X'}, {'hint': h, 'observed': co},
                                       'TypeHint(h) == TypeHint(h) raises BeartypeDoorIsSubhintException')
                elif bad:
                    failures += report(ctx, {'clause': 'wrapper_coherence', 'which': bad[0]}, {'hint': h, 'observed': co},
                                       'TypeHint wrapper is not coherent: ' + bad[0])
            for e in res.get('equal_pairs', []):
                if e.get('error') == 'BeartypeDoorIsSubhintException':
                    continue        # reported above as the partiality finding when it concerns h vs h
                if e.get('error') or not e.get('hash_eq') or not e.get('mutual'):
                    failures += report(ctx, {'clause': 'equal_wrappers', 'which': 'hash' if not e.get('hash_eq') else 'mutual'},
                                       {'A': hs[e['i']], 'B': hs[e['j']], 'observed': e},
                                       'equal TypeHint wrappers with different hashes or that are not mutual subhints')
            for i in range(3):
                for j in range(3):
                    v = P[f'{i}{j}']
                    if v not in R3:
                        failures += report(ctx, {'clause': 'unexpected_exception'}, {'A': hs[i], 'B': hs[j], 'answer': v},
                                           'is_subhint raised something other than BeartypeDoorIsSubhintException')
                        continue
                    rows.append('{| d_a := %s; d_b := %s; d_obs := %s |}' % (IR.coq_hint(hs[i]), IR.coq_hint(hs[j]), R3[v]))
                    index.append((hs[i], hs[j], v))
        if failures > 25:
            break
    shard, paths = 300, []
    for lo in range(0, len(rows), shard):
        text = HEADER + 'Definition cases : list dcase := %s.\nEval vm_compute in (dfailing cases).\n' % coq_list(
            ['\n ' + r for r in rows[lo:lo + shard]])
        path = os.path.join(ctx.workdir, f'c19_{lo}.v')
        with open(path, 'w') as f:
            f.write(text)
        paths.append(path)
    shown = 0
    for si, out in enumerate(coqc_many(paths, jobs=12)):
        for j in parse_nat_list(out):
            if shown >= 8:
                break
            shown += 1
            a, b, v = index[si * shard + j]
            failures += report(ctx, {'clause': 'correspondence', 'a_root': a[0], 'b_root': b[0]},
                               {'A': a, 'B': b, 'beartype': v, 'expected': 'Core/Door.v is_subhint'},
                               'the model of is_subhint and beartype disagree')
    # wrappers of hints outside the modelled grammar: TypeVars, callables, NewTypes, generics
    extra = run_impl('c19_impl.py', {'extra_coherence': True, 'cases': []})[0]
    ctx.extra['extra_coherence_hints'] = sorted(extra)
    for name, co in extra.items():
        ctx.evaluations += 1
        bad = [k for k, v in co.items() if v is False or k == 'error']
        if bad:
            failures += report(ctx, {'clause': 'wrapper_coherence', 'which': bad[0], 'hint_kind': name.split('[')[0].split('(')[0].split('_')[0]},
                               {'hint': name, 'observed': co}, 'TypeHint wrapper of %s is not coherent: %s' % (name, bad[0]))
    if proof_err is not None and not failures:
        ctx.broken(f'{PROP} ({proof_err.what})', proof_err.log)


def report(ctx, shape, record, what):
    return 1 if ctx.report(shape, record, what) == 'violation' else 0


def replay(ctx, path):
    with open(path) as f:
        body = json.load(f)
    ctx.safe_regenerate(regenerate)
    r = body['record']
    if isinstance(r.get('hint'), str):
        # a probe outside the modelled grammar (extra_hints / same_repr_probe): re-run it and show that entry
        extra = run_impl('c19_impl.py', {'extra_coherence': True, 'cases': []})[0]
        print(json.dumps({r['hint']: extra.get(r['hint'])}))
        return
    hs = [r[k] for k in ('A', 'B', 'C') if k in r] or [r.get('hint')]
    print(json.dumps(run_impl('c19_impl.py', {'cases': [{'hints': hs, 'values': [r['object']] if 'object' in r else [],
                                                       'coherence': True}]})[0]))
