"""C13 — decorating a class equals decorating its methods; no-op cases are identities.  See DESIGN.md 5/C13.

proof:          coq/theories/Props/C13.v (C13/Decor.v, C13/Proofs.v)
translator tie: none (the model is hand-written); the attribute the class decorator marks classes with and the order of the
                identity tests in beartype_func are read off the source as a sanity check
correspondence: generated classes (plain / class / static / property members, annotated or not, @no_type_check, members
                already decorated, nested classes two deep, attributes holding foreign classes, data attributes, an
                annotated base class) under the default configuration and strategy O0: the class decorated as a whole
                against the model (which inner functions become wrappers) and against a copy decorated member by member
                (call for call, good and bad arguments); same class object returned, descriptor kinds, names, docstrings,
                signatures, __wrapped__, idempotence by object identity, inherited members untouched; python -O in a
                separate interpreter
"""
import json
import os
import subprocess

from harness.common import PY, VERIF, CoqFailure, coq_list, coq_str, coqc_many, impl_env, parse_nat_list, run_impl

PROP = 'theories/Props/C13.v'
HEADER = ('From Coq Require Import List String.\nFrom BT Require Import C13.Decor C13.Corr.\nImport ListNotations.\nOpen Scope string_scope.\n')


def regenerate(ctx):
    pass


def gen_class(rng, name, depth, counter, broken=False):
    members = []
    for i in range(rng.randint(1, 6)):
        r = rng.random()
        nm = f'a{len(members)}'
        if broken and r < 0.2:
            members.append([nm, ['broken']])
        elif r < 0.45:
            kind = rng.choice(['func', 'func', 'classmethod', 'staticmethod'])
            members.append([nm, [kind, rng.random() < 0.7, rng.random() < 0.12, rng.random() < 0.15]])
        elif r < 0.6:
            members.append([nm, ['property', rng.random() < 0.6, rng.random() < 0.6, rng.random() < 0.6, rng.choice([None, None, 'nodoc', 'other'])]])   # getter annotated?, setter?, setter annotated?
        elif r < 0.75 and depth > 0:
            members.append([f'N{len(members)}', ['nested', gen_class(rng, f'N{len(members)}', depth - 1, counter, broken)]])
        elif r < 0.85:
            members.append([nm, ['foreign']])
        else:
            members.append([nm, ['data']])
    # a third of the classes have a metaclass other than type (abc.ABC, ABCMeta, a user metaclass): nothing about the walk depends on it
    bases = rng.choice([[], [], [], [], ['abc.ABC'], ['metaclass=abc.ABCMeta'], ['metaclass=Meta']])
    return {'name': name, 'members': members, 'bases': bases}


def coq_func(m, counter):
    ann, ntc, pre = m[1], m[2], m[3]
    counter[0] += 1
    f = '(Plain %d %s %s)' % (counter[0], 'true' if ann else 'false', 'true' if ntc else 'false')
    if pre and ann and not ntc:
        f = '(Wrapper %s)' % f          # decorated before the class was
    return f


def coq_cls(c, counter):
    ms = []
    for name, m in c['members']:
        k = m[0]
        if k == 'func':
            t = '(MFunc %s)' % coq_func(m, counter)
        elif k == 'classmethod':
            t = '(MClassMethod %s)' % coq_func(m, counter)
        elif k == 'staticmethod':
            t = '(MStaticMethod %s)' % coq_func(m, counter)
        elif k == 'property':
            counter[0] += 2
            g = '(Some (Plain %d %s false))' % (counter[0] - 1, 'true' if m[1] else 'false')
            s = '(Some (Plain %d %s false))' % (counter[0], 'true' if m[3] else 'false') if m[2] else 'None'
            t = '(MProperty %s %s None)' % (g, s)
        elif k == 'broken':
            # left as it is, like a @no_type_check member (the model has no separate notion of an undecoratable member)
            counter[0] += 1
            t = '(MFunc (Plain %d true true))' % counter[0]
        elif k == 'nested':
            t = '(MNested %s)' % coq_cls(m[1], counter)
        elif k == 'foreign':
            t = '(MForeign 0)'
        else:
            t = 'MData'
        ms.append('(%s, %s)' % (coq_str(name), t))
    return '(Cls false %s)' % coq_list(ms)


def flat_wrappers(c, obs):
    out = []
    for name, m in c['members']:
        o = obs[name]
        if m[0] == 'nested':
            out += flat_wrappers(m[1], o['nested'])
        elif m[0] in ('func', 'classmethod', 'staticmethod', 'property', 'broken'):
            out += [bool(x) for x in o['wrappers'] if x is not None]
    return out


def member_problems(c, obs, o0):
    """clauses of the property checked directly on the implementation, per member"""
    kinds = {'broken': 'function', 'func': 'function', 'classmethod': 'classmethod', 'staticmethod': 'staticmethod', 'property': 'property',
             'nested': 'type', 'foreign': 'type', 'data': 'int'}
    out = []
    for name, m in c['members']:
        o = obs[name]
        if o['kind'] != kinds[m[0]]:
            out.append(('descriptor_kind', f'{name}: {o["kind"]} instead of {kinds[m[0]]}'))
        if not o['metadata_kept']:
            out.append(('metadata', f'{name}: name, docstring or signature changed'))
        if any(x is False for x in o['wrapped_is_original']):
            out.append(('wrapped', f'{name}: __wrapped__ is not the original'))
        if m[0] in ('foreign', 'data') and not o['same_object']:
            out.append(('touched_foreign', f'{name}: an attribute that is not the class\'s own callable was replaced'))
        if m[0] in ('func', 'classmethod', 'staticmethod'):
            expect_identity = o0 or not m[1] or m[2] or (m[3] and m[1] and not m[2])
            if expect_identity and not all(o['funcs_same']):
                out.append(('identity', f'{name}: replaced although decoration should be the identity'))
        if m[0] == 'broken' and not all(o['funcs_same']):
            out.append(('identity', f'{name}: a member that cannot be decorated was replaced'))
        if m[0] == 'nested':
            out += member_problems(m[1], o['nested'], o0)
    return out


def python_O_probe():
    code = ('from beartype import beartype\n'
            'class K:\n    def m(self, x: int) -> int: return x\n'
            'f0 = K.__dict__["m"]\nK2 = beartype(K)\n'
            'def g(x: int): return x\n'
            'print(int(K2 is K), int(K.__dict__["m"] is f0), int(beartype(g) is g), int(not __debug__))\n')
    p = subprocess.run([PY, '-O', '-c', code], capture_output=True, text=True, env=impl_env(), timeout=120)
    return p.stdout.strip().split()[-4:] if p.returncode == 0 else ['crash', p.stderr[-300:]]


def run(ctx):
    ctx.rule = ('classes with 1-6 own attributes drawn from plain / class / static methods (70% annotated, 12% @no_type_check, 15% '
                'already decorated), properties (getter, optional setter), nested classes (depth <= 2), attributes holding a foreign '
                'class, data; 40% with an annotated base class; default configuration, strategy O0, and warning_cls_on_decorator_exception with members that cannot be decorated (25%); every callable member called '
                'with a conforming and a violating argument; non-trivial = >= 2 descriptor kinds or a nested class; distinct = distinct class')
    ctx.assumptions += ['dataclasses (is_pep557_fields), metaclasses with __call__, and class redefinition are exercised by the repository tests only',
                        'python -O is probed in one separate interpreter (three identities)']
    proof_err = None
    try:
        ctx.prove(PROP, extra_targets=['theories/C13/Corr.vo'])
    except CoqFailure as e:
        proof_err = e
        from harness.common import coq_make
        try:
            coq_make(['theories/C13/Corr.vo'])
        except CoqFailure as e2:
            ctx.broken('corr/c13 model does not build', e2.log)
            return
    failures = 0
    n = {'quick': 400, 'thorough': 12000}[ctx.tier]
    cases = []
    for i in range(n):
        warn = ctx.rng.random() < 0.25
        c = gen_class(ctx.rng, 'K', 2, [0], broken=warn)
        case = {'cls': c, 'O0': (not warn) and ctx.rng.random() < 0.2, 'warn_decor': warn}
        if ctx.rng.random() < 0.4:
            case['base'] = {'name': 'Base', 'members': [['b0', ['func', True, False, False]], ['b1', ['classmethod', True, False, False]]], 'bases': []}
            c['bases'] = ['Base'] + c['bases']
        cases.append(case)
    rows, index = [], []
    for lo in range(0, n, 200):
        part = cases[lo:lo + 200]
        obs = run_impl('c13_impl.py', {'cases': part}, timeout=1200)
        for case, o in zip(part, obs):
            kinds = {m[0] for _, m in case['cls']['members']}
            ctx.case(case, len(kinds) >= 2 or 'nested' in kinds, sample={'class': case['cls'], 'O0': case['O0'],
                                                                         'calls': o.get('calls_class')})
            for k in kinds:
                ctx.count('member:' + k)
            ctx.count('O0' if case['O0'] else 'default_conf')
            if 'decor_error' in o:
                failures += 1
                ctx.report({'clause': 'decoration_failed'}, {'case': case, 'observed': o}, 'decorating a generated class raised')
                continue
            problems = member_problems(case['cls'], o['members'], case['O0'])
            if not o['returns_same_class']:
                problems.insert(0, ('same_class', 'decorating a class did not return the same class object'))
            if not o['idempotent']:
                problems.append(('idempotence', 'decorating the decorated class again replaced an attribute'))
            if o.get('base_untouched') is False:
                problems.append(('inherited_touched', 'an inherited member was replaced in the base class'))
            if not o['class_meta']:
                problems.append(('class_metadata', 'class name or docstring changed'))
            if o['calls_class'] != o['calls_by_hand']:
                problems.append(('not_memberwise', 'the class decorated as a whole does not behave like the class decorated member by member'))
            for kind, what in problems[:1]:
                failures += 1
                ctx.report({'clause': kind}, {'case': case, 'observed': o}, what)
            flags = flat_wrappers(case['cls'], o['members'])
            rows.append('{| k_conf := {| strategy_O0 := %s; python_O := false |}; k_cls := %s; k_obs := %s |}' % (
                'true' if case['O0'] else 'false', coq_cls(case['cls'], [0]), coq_list(['true' if b else 'false' for b in flags])))
            index.append((case, o))
        if failures > 12:
            break
    shard, paths = 200, []
    for lo in range(0, len(rows), shard):
        text = HEADER + 'Definition cases : list kcase := %s.\nEval vm_compute in (kfailing cases).\n' % coq_list(
            ['\n ' + r for r in rows[lo:lo + shard]])
        path = os.path.join(ctx.workdir, f'c13_{lo}.v')
        with open(path, 'w') as f:
            f.write(text)
        paths.append(path)
    for si, out in enumerate(coqc_many(paths, jobs=8)):
        for j in parse_nat_list(out)[:3]:
            failures += 1
            case, o = index[si * shard + j]
            ctx.report({'clause': 'correspondence'}, {'case': case, 'observed': o['members']},
                       'the model (C13/Decor.v) and beartype disagree on which functions become wrappers')
    probe = python_O_probe()
    ctx.extra['python_O_probe'] = probe
    ctx.evaluations += 1
    if probe != ['1', '1', '1', '1']:
        failures += 1
        ctx.report({'clause': 'python_O'}, {'probe': probe}, 'under python -O the decorator is not the identity (or the probe crashed)')
    if proof_err is not None and not failures:
        ctx.broken(f'{PROP} ({proof_err.what})', proof_err.log)


def replay(ctx, path):
    with open(path) as f:
        body = json.load(f)
    case = body['record'].get('case')
    if case:
        print(json.dumps(run_impl('c13_impl.py', {'cases': [case]})[0])[:3000])
