"""C15 — the public API is safe to use from many threads under every interleaving.  See DESIGN.md 5/C15.

proof:          coq/theories/Props/C15.v (C15/Conc.v, C15/Proofs.v)
translator tie: the lock disciplines the model assumes are read off the source on every run: BeartypeConf.__new__ looks its memo up
                and stores into it inside `with _beartype_conf_lock`, CacheUnboundedStrong.cache_or_get_cached_func_return_passed_arg
                inside `with self._lock`, hook registration inside `with claw_lock`, @callable_cached with no lock at all
correspondence: real threads (2-3 per scenario) driven through BeartypeConf(...), TypeHint(...), beartype_packages(...), is_bearable,
                @beartype and a @callable_cached probe under a seeded line-level scheduler (sys.settrace inside the relevant
                beartype files; a thread blocked on a real lock is detected and another one scheduled): every schedule must end
                (no deadlock), raise nothing, hand equal keys one shared object, lose no registration; the unlocked probe must
                exhibit the schedule the model refutes
"""
import ast
import json
import os

from harness.common import REPO, CoqFailure, run_impl

PROP = 'theories/Props/C15.v'
SCENARIOS = ['conf', 'typehint', 'register', 'check', 'decorate', 'unlocked_probe']


def regenerate(ctx):
    pass


def _func(tree, cls, name):
    for n in ast.walk(tree):
        if isinstance(n, ast.ClassDef) and n.name == cls:
            for m in n.body:
                if isinstance(m, ast.FunctionDef) and m.name == name:
                    return m
    for n in ast.walk(tree):
        if cls is None and isinstance(n, ast.FunctionDef) and n.name == name:
            return n
    return None


def _inside_with(func, lock_names, predicate):
    """every node satisfying predicate lies inside a `with <lock>` whose context expression mentions one of lock_names"""
    found, outside = 0, 0

    def walk(node, locked):
        nonlocal found, outside
        if isinstance(node, ast.With):
            src = ' '.join(ast.unparse(i.context_expr) for i in node.items)
            inner = locked or any(l in src for l in lock_names)
            for c in node.body:
                walk(c, inner)
            return
        if predicate(node):
            found += 1
            if not locked:
                outside += 1
        for c in ast.iter_child_nodes(node):
            walk(c, locked)
    walk(func, False)
    return found, outside


def lock_disciplines():
    """what the source says about the three locked tables and the unlocked decorator"""
    out = {}
    t = ast.parse(open(os.path.join(REPO, 'beartype/_conf/confmain.py')).read())
    f = _func(t, 'BeartypeConf', '__new__')
    touches = lambda n: isinstance(n, ast.Name) and n.id == '_beartype_conf_args_to_conf'  # noqa: E731
    out['conf_memo'] = _inside_with(f, ['_beartype_conf_lock'], touches) if f else None
    t = ast.parse(open(os.path.join(REPO, 'beartype/_util/cache/map/utilmapunbounded.py')).read())
    f = _func(t, 'CacheUnboundedStrong', 'cache_or_get_cached_func_return_passed_arg')
    touches = lambda n: isinstance(n, ast.Attribute) and n.attr in ('_key_to_value_get', '_key_to_value_set')  # noqa: E731
    out['unbounded_cache'] = _inside_with(f, ['self._lock'], touches) if f else None
    t = ast.parse(open(os.path.join(REPO, 'beartype/claw/_package/clawpkgmain.py')).read())
    f = _func(t, None, 'hook_packages')
    calls = lambda n: isinstance(n, ast.Call) and isinstance(n.func, ast.Name) and n.func.id.startswith('_')  # noqa: E731
    out['hook_registration'] = _inside_with(f, ['claw_lock'], calls) if f else None
    t = ast.parse(open(os.path.join(REPO, 'beartype/_util/cache/utilcachecall.py')).read())
    f = _func(t, None, 'callable_cached')
    out['callable_cached_has_lock'] = any(isinstance(n, ast.With) for n in ast.walk(f)) if f else None
    return out


def run(ctx):
    ctx.rule = ('six scenarios x seeded schedules: 3 threads creating BeartypeConf objects (two fresh keyword sets), 3 threads wrapping fresh '
                'hashable hints in TypeHint, 3 threads registering packages, 3 threads calling is_bearable on one fresh hint, 3 threads '
                'decorating functions sharing fresh hints, 2 threads calling a @callable_cached probe returning a fresh object; the '
                'scheduler switches threads at line granularity inside 11 beartype source files; in addition, for the decorate and '
                'check scenarios (and, around the registration code, for a two-package registration racing with a conflicting one), every single-preemption schedule around the object pools: thread 0 parked before each line it executes '
                'in calldatadecorfunc.py / utilcachepool.py / the acquire-release neighbourhoods of codemain.py, thread 1 run for a '
                'quarter, half, three quarters of its pool-file steps, thread 0 to its end, the rest to theirs; non-trivial = >= 8 context switches; '
                'distinct = distinct (scenario, schedule seed)')
    ctx.assumptions += ['line granularity inside the listed files (not bytecode granularity, not inside C code); the GIL is not modelled',
                        'the model has one lock-protected table; the three real tables are separate instances of it',
                        'object pools (utilcachepool) and the per-object attribute caches are exercised through the decorate / check scenarios only']
    proof_err = None
    try:
        ctx.prove(PROP)
    except CoqFailure as e:
        proof_err = e
    failures = 0
    disc = lock_disciplines()
    ctx.extra['lock_disciplines'] = disc
    n = {'quick': 40, 'thorough': 1500}[ctx.tier]
    cases = [{'scenario': s, 'seed': ctx.rng.getrandbits(30)} for s in SCENARIOS for _ in range(n)]
    # systematic single-preemption schedules around the object pools (KeyPool / typed pools): see c15_impl.directed
    nd = {'quick': 1, 'thorough': 8}[ctx.tier]
    cases += [{'scenario': s, 'seed': ctx.rng.getrandbits(20), 'mode': 'directed'} for s in ('decorate', 'check', 'register_conflict', 'conf') for _ in range(nd)]
    distinct_seen = 0
    for lo in range(0, len(cases), 120):
        part = cases[lo:lo + 120]
        obs = run_impl('c15_impl.py', {'cases': part}, timeout=1800)
        for case, o in zip(part, obs):
            if case.get('mode') == 'directed':
                ctx.evaluations += max(0, o.get('schedules', 1) - 1)
                ctx.count('directed_schedules', o.get('schedules', 0))
            ctx.case(case, o['switches'] >= 8, sample={'case': case, 'steps': o['steps'], 'switches': o['switches'], 'outcomes': o['outcomes']})
            ctx.count('scenario:' + case['scenario'])
            if case['scenario'] == 'unlocked_probe':
                distinct_seen += bool(o.get('distinct_objects'))
            probs = list(o['problems']) + (['a thread raised: ' + o['exceptions'][0]] if o['exceptions'] else [])
            for pr in probs[:1]:
                failures += 1
                ctx.report({'clause': 'thread_safety', 'scenario': case['scenario'], 'problem': pr.split(' [thread 0 parked')[0][:50]},
                           {'case': case, 'observed': o}, pr)
    ctx.extra['unlocked_probe_schedules_with_distinct_objects'] = distinct_seen
    # the disciplines the model assumes
    bad = []
    for k in ('conf_memo', 'unbounded_cache', 'hook_registration'):
        v = disc.get(k)
        if not v or v[0] == 0 or v[1] != 0:
            bad.append(k)
    if disc.get('callable_cached_has_lock'):
        bad.append('callable_cached_has_lock (the model treats it as unlocked)')
    if bad and not failures:
        ctx.broken('translator/lock_disciplines: the source no longer shows the locking the model assumes: ' + ', '.join(bad),
                   json.dumps(disc), shape={'broken': 'lock_disciplines'})
        failures += 1
    if proof_err is not None and not failures:
        ctx.broken(f'{PROP} ({proof_err.what})', proof_err.log)


def replay(ctx, path):
    with open(path) as f:
        body = json.load(f)
    case = body['record'].get('case')
    if case:
        print(json.dumps(run_impl('c15_impl.py', {'cases': [case]})[0])[:3000])
