"""C02 — guaranteed detection.  See DESIGN.md 5/C02.

proof:          coq/theories/Props/C02.v (Core/Detect.v)
correspondence: the C01 stream plus structured streams: wrong top-level class, every item bad,
                exactly one bad item at each index of sequences of length 1..8 checked at draw = index
                and at every other index, is_random both ways
"""
import json

from harness import corecorr as C
from harness import coreir as IR
from harness.common import CoqFailure, run_impl
from harness.props import c01
from harness.translate.run import regenerate_core

PROP = 'theories/Props/C02.v'
SEQ_CLS = {'List': ['list', 'UserList'], 'Tuple': ['tuple'], 'Sequence': ['list', 'tuple', 'UserSeq', 'deque'],
           'MutableSequence': ['list', 'deque']}
CHILDREN = [
    (['cls', 'int'], ['int', 5], ['str', 'bad']),
    (['cls', 'str'], ['str', 'ok'], ['int', 0]),
    (['literal', [['int', 1], ['str', 'a']]], ['int', 1], ['int', 2]),
    (['tuplefixed', [['cls', 'int'], ['cls', 'str']]], ['cont', 'tuple', [['int', 1], ['str', 's']]],
     ['cont', 'tuple', [['int', 1]]]),
    (['union', [['cls', 'int'], ['cont', 'List', ['cls', 'str']]]], ['cont', 'list', [['str', 'x']]],
     ['cont', 'list', [['int', 3]]]),
    (['type', ['UserA']], ['cls', 'UserB'], ['cls', 'int']),
]


def regenerate(ctx):
    regenerate_core()


def structured_cases(rng, n):
    """(case, expectation) pairs; expectation(draw) -> 'T' | 'F'"""
    out = []
    for _ in range(n):
        sign = rng.choice(sorted(SEQ_CLS))
        child, good, bad = rng.choice(CHILDREN)
        cname = rng.choice(SEQ_CLS[sign])
        length = rng.randint(1, 8)
        kind = rng.choice(['one_bad', 'one_bad', 'one_bad', 'all_bad', 'top_wrong', 'nested_one_bad'])
        is_random = rng.random() < 0.7
        hint = ['cont', sign, child]
        if kind == 'one_bad':
            i = rng.randrange(length)
            items = [good] * length
            items[i] = bad
            val = ['cont', cname, items]
            draws = sorted(set(list(range(length)) + [i + length * rng.randint(1, 5), 2 ** 32 - 1]))
            exp = (lambda i, length, is_random: (lambda d: 'F' if ((d % length) if is_random else 0) == i else 'T'))(i, length, is_random)
        elif kind == 'all_bad':
            val = ['cont', cname, [bad] * length]
            draws = [0, 1, 7, 2 ** 32 - 1, rng.getrandbits(32)]
            exp = lambda d: 'F'  # noqa: E731
        elif kind == 'top_wrong':
            val = rng.choice([['map', 'dict', []], ['int', 3], ['cont', 'set', []], ['none'],
                              ['cont', 'generator', [good]]])
            draws = [0, 1, 2 ** 32 - 1]
            exp = lambda d: 'F'  # noqa: E731
        else:
            # the bad item sits one level down: outer index j, inner index i
            j, i = rng.randrange(length), rng.randrange(3)
            inner = [good] * 3
            inner[i] = bad
            items = [['cont', 'list', [good] * 3] for _ in range(length)]
            items[j] = ['cont', 'list', inner]
            hint = ['cont', sign, ['cont', 'List', child]]
            val = ['cont', cname, items]
            draws = sorted({i + 3 * j * 0 + 3 * length * 0, j, i, (j * 3 + i), rng.getrandbits(16)} |
                           {d for d in range(3 * length) if d % length == j and d % 3 == i})
            exp = (lambda i, j, length, is_random: (lambda d: 'F' if (((d % length) == j and (d % 3) == i) if is_random
                                                                  else (j == 0 and i == 0)) else 'T'))(i, j, length, is_random)
        out.append(({'hint': hint, 'value': val, 'draws': draws, 'is_random': is_random,
                     'entries': ['is_bearable', 'param'], 'kind': kind}, exp))
    return out


def oracle_f18(w):
    """F18: items at index >= 2**32 of a (lazy) sequence are never sampled"""
    r = run_impl('c02_lazy_impl.py', w)
    return (r['rejections'] == 0 and r['control_rejections'] > 0), \
        {'clause': 'reachability', 'kind': 'index-beyond-32-bit-draw'}, {'witness': w, 'observed': r}


def run(ctx):
    ctx.rule = (c01.RULE + '; plus structured detection cases (one bad item at each index of sequences of length '
                '1..8 at draw = index and all other residues, nested one level down, all items bad, wrong top-level '
                'class; is_random both ways) whose expected verdict per draw is computed from the property text')
    ctx.assumptions += ['see C01; rejection expectations of the structured stream come from the property text, '
                        'not from the model']
    ctx.safe_regenerate(regenerate)
    proof_err = c01.prove_core(ctx, PROP)
    for e in ctx.known:
        if e['status'] == 'known' and e['id'] == 'F18':
            repro, shape, rec = oracle_f18(e['witness'])
            ctx.count('known_witness_replayed')
            if repro:
                ctx.report(shape, rec, e['what'])
    failures = 0
    try:
        n = {'quick': 500, 'thorough': 12000}[ctx.tier]
        pairs = structured_cases(ctx.rng, n)
        cases = [p[0] for p in pairs]
        for lo in range(0, len(cases), 300):
            part = cases[lo:lo + 300]
            obs = C.run_impl_cases(part)
            C.record_distribution(ctx, part, obs)
            for (case, exp), res in zip(pairs[lo:lo + 300], obs):
                ctx.count('kind:' + case['kind'])
                ctx.case([case['hint'], case['value'], case['is_random']], True,
                         sample={'hint': case['hint'], 'value': case['value'], 'draws': case['draws'],
                                 'kind': case['kind'],
                                 'verdicts': [r['is_bearable']['verdict'] for r in res.get('runs', [])]})
                ctx.evaluations += max(0, len(case['draws']) * 2 - 1)
                for di, per in enumerate(res.get('runs', [])):
                    want = exp(case['draws'][di])
                    for ent, o in per.items():
                        if o['verdict'] != want:
                            failures += 1
                            ctx.report({'clause': 'detection', 'kind': case['kind'], 'expected': want,
                                        'observed': o['verdict'].split(':')[0]},
                                       {'case': case, 'draw': case['draws'][di], 'entry': ent,
                                        'expected': want, 'observed': o['verdict']},
                                       'a violation the strategy must see was not rejected (or a sound object was)')
                            break
            bad = C.evaluate(ctx, 's%d' % lo, part, obs)
            for ci, di in bad[:5]:
                failures += 1
                ctx.report({'clause': 'correspondence', 'hint_root': part[ci]['hint'][0]},
                           {'case': part[ci], 'draw': part[ci]['draws'][di] if di >= 0 else None,
                            'implementation': obs[ci]},
                           'model and beartype disagree on a structured detection case')
            if failures > 12:
                break
        if failures <= 12:
            failures += c01.run_stream(ctx, {'quick': 120, 'thorough': 3000}[ctx.tier], 4, lambda c, r: [],
                                       entries=('is_bearable',))
    except CoqFailure as e:
        if proof_err is None:
            ctx.broken('corr/core model evaluation', e.log)
            return
    # user generics that subclass a subscripted container (class IntList(list[int])), alone and as members of unions, below
    # containers: every item of the violating objects is bad, so every call must reject; conforming ones must pass
    probe = user_generic_probe()
    ctx.extra['user_generic_probe'] = probe if 'probe_failed' in probe else {k: v for k, v in probe.items() if v != 'as required'} or 'all as required'
    ctx.evaluations += len(probe)
    if 'probe_failed' in probe:
        failures += 1
        ctx.report({'clause': 'user_generic_probe_failed'}, {'observed': probe}, 'the probe of user generics crashed')
    else:
        for name, verdict in probe.items():
            if verdict != 'as required':
                failures += 1
                if ctx.report({'clause': 'missed_detection' if 'accepted' in verdict else 'false_alarm', 'stream': 'user_generic',
                               'case': name.split(' [')[0]},
                              {'case': name, 'observed': verdict}, 'a user generic over a subscripted container is not checked as its base demands: ' + name) != 'violation':
                    failures -= 1
                    continue
                break
    # PEP 646: a fixed-length tuple hint with unpacked fixed-length child tuples is the flattened fixed-length tuple
    # (which the model covers): same verdict on every object, whatever the draw and the entry point
    unp = unpacked_tuple_probe()
    ctx.extra['unpacked_tuple_probe'] = unp if 'probe_failed' in unp else {'cases': unp.get('cases'), 'differing': unp.get('differing', [])[:5]}
    ctx.evaluations += unp.get('cases', 0) if isinstance(unp.get('cases'), int) else 0
    if 'probe_failed' in unp or unp.get('differing'):
        if ctx.report({'clause': 'missed_detection', 'stream': 'unpacked_tuple'}, {'observed': unp.get('differing', unp)[:3] if 'differing' in unp else unp},
                      'a fixed-length tuple hint with an unpacked child tuple is not checked like the flattened tuple hint') == 'violation':
            failures += 1
    if proof_err is not None and not failures:
        ctx.broken(f'{PROP} ({proof_err.what})', proof_err.log)


def unpacked_tuple_probe():
    import subprocess
    from harness.common import PY, impl_env
    code = r'''
import json, itertools, warnings
warnings.simplefilter('ignore')
from typing import Unpack
from beartype import BeartypeConf, beartype
from beartype.door import is_bearable, die_if_unbearable
from beartype.roar import BeartypeDoorHintViolation, BeartypeCallHintViolation
TYPES = [int, str, bytes, bool, float]
GOOD = {int: 1, str: 'a', bytes: b'b', bool: True, float: 0.5}
BAD = {int: 'x', str: 2, bytes: 'c', bool: 'no', float: 'f'}
def verdict(obj, hint, conf, entry):
    try:
        if entry == 'is_bearable':
            return is_bearable(obj, hint, conf=conf)
        if entry == 'die_if_unbearable':
            die_if_unbearable(obj, hint, conf=conf); return True
        @beartype(conf=conf)
        def f(x: hint): return None
        f(obj); return True
    except (BeartypeDoorHintViolation, BeartypeCallHintViolation):
        return False
    except Exception as e:
        return 'raised ' + type(e).__name__
cases, differing = 0, []
for pre, mid, post in itertools.product(range(0, 3), range(1, 4), range(0, 3)):     # an empty unpacked child is rejected as unsupported
    ts = [TYPES[i % 5] for i in range(pre + mid + post)]
    if not ts:
        continue
    inner = tuple[tuple(ts[pre:pre + mid])] if mid else tuple[()]
    for spell in ('star', 'Unpack'):
        unpacked = Unpack[inner]
        hint = tuple[(*ts[:pre], unpacked, *ts[pre + mid:])] if spell == 'Unpack' else eval(
            'tuple[(*ts[:pre], *inner, *ts[pre + mid:])]')
        plain = tuple[tuple(ts)] if ts else tuple[()]
        good = tuple(GOOD[t] for t in ts)
        objs = [good, good[:-1], good + (0,), ()]
        for i, t in enumerate(ts):
            objs.append(good[:i] + (BAD[t],) + good[i + 1:])
        for conf in (BeartypeConf(), BeartypeConf(is_random=False)):
            for entry in ('is_bearable', 'die_if_unbearable', 'param'):
                for o in objs:
                    cases += 1
                    a, b = verdict(o, hint, conf, entry), verdict(o, plain, conf, entry)
                    if a != b:
                        differing.append({'hint': repr(hint), 'flattened': repr(plain), 'object': repr(o), 'entry': entry,
                                          'is_random': conf.is_random, 'unpacked_verdict': a, 'flattened_verdict': b})
print(json.dumps({'cases': cases, 'differing': differing[:20]}))
'''
    p = subprocess.run([PY, '-c', code], capture_output=True, text=True, env=impl_env(), timeout=300)
    try:
        return json.loads(p.stdout.strip().splitlines()[-1])
    except Exception:  # noqa
        return {'probe_failed': (p.stderr or 'no output')[-600:]}


def user_generic_probe():
    import subprocess
    from harness.common import PY, impl_env
    code = r'''
import json, warnings
warnings.simplefilter('ignore')
from typing import Generic, Optional, TypeVar, Union
from beartype import BeartypeConf, beartype
from beartype.door import die_if_unbearable, is_bearable
from beartype.roar import BeartypeException
T = TypeVar('T')
class IntList(list[int]): pass
class ListOf(list[T]): pass
class StrKeyed(dict[str, T]): pass
class Pair(tuple[int, str]): pass
K = TypeVar('K'); V = TypeVar('V')
class Rev(dict[V, K], Generic[K, V]): pass      # declares its type variables in another order than its base uses them
type L[T] = list[T]                             # PEP 695 parametrised aliases
type P[T] = tuple[T, T]
CASES = [
 ('L[int] (PEP 695 alias)', L[int], [1, 2], ['x', 'y']),
 ('list[L[int]] (alias below a container)', list[L[int]], [[1]], [['x'], ['y']]),
 ('L[list[int]] (container below an alias)', L[list[int]], [[1]], [['x'], ['y']]),
 ('L[L[int]] (alias nested in itself)', L[L[int]], [[1]], [['x'], ['y']]),
 ('P[P[int]] (alias nested in itself)', P[P[int]], ((1, 2), (3, 4)), (('x', 'y'), ('z', 'w'))),
 ('L[P[int]] (one alias below another)', L[P[int]], [(1, 2)], [('x', 'y')]),
 ('Rev[int, str] (reordered type variables)', Rev[int, str], Rev({'a': 1}), Rev({1: 'a'})),
 ('IntList', IntList, IntList([1, 2]), IntList(['a', 'b', 'c'])),
 ('IntList | None', IntList | None, IntList([1, 2]), IntList(['a', 'b', 'c'])),
 ('Optional[IntList]', Optional[IntList], None, IntList(['a'])),
 ('Union[IntList, str]', Union[IntList, str], 'x', IntList([b'x', b'y'])),
 ('Optional[ListOf[int]]', Optional[ListOf[int]], ListOf([1]), ListOf(['a', 'b'])),
 ('Union[StrKeyed[int], int]', Union[StrKeyed[int], int], StrKeyed({'a': 1}), StrKeyed({1: 'x', 2: 'y'})),
 ('Pair | None (length)', Pair | None, Pair((1, 'a')), Pair((1, 'a', 'extra'))),
 ('Pair | None (position)', Pair | None, Pair((1, 'a')), Pair(('a', 1))),
 ('list[IntList | int]', list[IntList | int], [IntList([1]), 3], [IntList(['a']), IntList(['b'])]),
 ('dict[str, IntList | None]', dict[str, IntList | None], {'k': None}, {'k': IntList(['a', 'b'])}),
]
out = {}
for name, hint, good, bad in CASES:
    for conf_name, conf in (('default', BeartypeConf()), ('is_random=False', BeartypeConf(is_random=False))):
        def f(x): return x
        f.__annotations__ = {'x': hint, 'return': hint}
        g = beartype(conf=conf)(f)
        def passes(obj):
            res = []
            for _ in range(12):
                r = [bool(is_bearable(obj, hint, conf=conf))]
                try: die_if_unbearable(obj, hint, conf=conf); r.append(True)
                except BeartypeException: r.append(False)
                try: g(obj); r.append(True)
                except BeartypeException: r.append(False)
                res.append(tuple(r))
            return res
        try:
            pg, pb = passes(good), passes(bad)
        except Exception as e:
            out[name + ' [' + conf_name + ']'] = 'raised ' + type(e).__name__ + ': ' + str(e)[:120]
            continue
        if not all(all(r) for r in pg):
            out[name + ' [' + conf_name + ']'] = 'conforming object rejected'
        elif any(any(r) for r in pb):
            out[name + ' [' + conf_name + ']'] = 'violating object accepted'
        else:
            out[name + ' [' + conf_name + ']'] = 'as required'
print(json.dumps(out))
'''
    p = subprocess.run([PY, '-c', code], capture_output=True, text=True, env=impl_env(), timeout=300)
    try:
        return json.loads(p.stdout.strip().splitlines()[-1])
    except Exception:  # noqa
        return {'probe_failed': p.stderr[-600:] or 'no output'}


def replay(ctx, path):
    with open(path) as f:
        body = json.load(f)
    if body.get('shape', {}).get('stream') == 'unpacked_tuple':
        print(json.dumps(unpacked_tuple_probe()))     # no 'differing' entries when the property holds
        return
    c01.replay(ctx, path)
