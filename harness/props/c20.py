"""C20 — an inferred hint always accepts the object it was inferred from.  See DESIGN.md 5/C20.

proof:          coq/theories/Props/C20.v (C20/Infer.v infer_hint, C20/Proofs.v infer_accepts)
translator tie: Gen/InferTable.v regenerated from beartype/bite (per-class hint factory: builtin table, the
                collections.abc finite state machine, scalar set, fixed-tuple bound, order of the inferers)
correspondence: generated objects (scalars, classes, instances, builtin / collections.abc / user-defined
                containers and mappings of any nesting and item mix, views, one-shot iterators): the real inferred
                hint read back into the grammar vs the model's (modulo union order), is_bearable(obj,
                infer_hint(obj)) vs the model's check, and a Python full-depth judgement vs the model's sat;
                self-referential containers on the implementation alone
"""
import json
import os

from harness import coreir as IR
from harness.common import COQ, PY, VERIF, CoqFailure, coq_list, coq_opt, coqc_many, impl_env, parse_nat_list, run_impl, write_if_changed
from harness.translate.run import regenerate_core

PROP = 'theories/Props/C20.v'
HEADER = ('From Coq Require Import List ZArith String.\n'
          'From BT Require Import Gen.ClassTable Gen.SignSets Core.PyVal Core.Expr Core.Hint Core.Corr C20.Corr.\n'
          'Import ListNotations.\nOpen Scope string_scope.\n')

SEQ = ['list', 'tuple', 'deque', 'UserSeq']
SETS = ['set', 'frozenset', 'dict_keys']
OTHER = ['dict_values', 'UserColl', 'UserIter', 'UserCont', 'generator', 'list_iterator', 'UserSizedIter']
MAPS = ['dict', 'defaultdict', 'OrderedDict', 'ChainMap', 'Counter', 'UserMap']


def regenerate(ctx):
    import subprocess
    regenerate_core()
    p = subprocess.run([PY, os.path.join(VERIF, 'harness', 'translate', 'infertable.py')], capture_output=True,
                       text=True, env=impl_env())
    if p.returncode != 0:
        raise CoqFailure('translator infertable.py', p.stdout[-1000:] + p.stderr[-3000:])
    write_if_changed(os.path.join(COQ, 'theories/Gen/InferTable.v'), p.stdout)


def gen_hashable(rng, depth):
    r = rng.random()
    if depth <= 0 or r < 0.6:
        k = rng.choice(['int', 'str', 'bool', 'float', 'bytes', 'none', 'obj', 'cls'])
        return {'int': lambda: ['int', rng.choice([0, 1, 2, 7, -1])], 'str': lambda: ['str', rng.choice(['', 'a', 'bc'])],
                'bool': lambda: ['bool', rng.random() < 0.5], 'float': lambda: ['float', rng.choice([1, 3, 4])],
                'bytes': lambda: ['bytes', rng.choice(['', 'ab'])], 'none': lambda: ['none'],
                'obj': lambda: ['obj', rng.choice(['UserA', 'UserB', 'UserC']), []],
                'cls': lambda: ['cls', rng.choice(['int', 'str', 'UserA', 'list'])]}[k]()
    if r < 0.85:
        return ['cont', 'tuple', [gen_hashable(rng, depth - 1) for _ in range(rng.choice([0, 1, 2, 3]))]]
    return ['cont', 'frozenset', dedup([gen_hashable(rng, depth - 1) for _ in range(rng.choice([0, 1, 2]))])]


def dedup(items):
    """keep one of the items Python itself identifies (hash / ==, e.g. (2,) and (2.0,)): members of sets, keys of dicts"""
    seen, out = {}, []
    for x in items:
        try:
            k = IR.U.to_python(x)
            hash(k)
        except Exception:  # noqa
            continue
        if k not in seen:
            seen[k] = True
            out.append(x)
    return out


def gen_obj(rng, depth):
    r = rng.random()
    if depth <= 0 or r < 0.25:
        return gen_hashable(rng, 1)
    n = rng.choice([0, 1, 1, 2, 3, 4, 12]) if depth >= 2 else rng.choice([0, 1, 2, 3])
    if r < 0.5:
        return ['cont', rng.choice(SEQ), [gen_obj(rng, depth - 1) for _ in range(n)]]
    if r < 0.62:
        return ['cont', rng.choice(SETS), dedup([gen_hashable(rng, depth - 1) for _ in range(n)])]
    if r < 0.72:
        return ['cont', rng.choice(OTHER), [gen_obj(rng, depth - 1) for _ in range(min(n, 4))]]
    if r < 0.77:
        ks = dedup([gen_hashable(rng, depth - 1) for _ in range(min(n, 4))])
        return ['cont', 'dict_items', [['cont', 'tuple', [k, gen_obj(rng, depth - 1)]] for k in ks]]
    name = rng.choice(MAPS)
    ks = dedup([gen_hashable(rng, depth - 1) for _ in range(min(n, 4))])
    if name == 'Counter':
        vals = [['int', rng.choice([0, 1, 5])] if rng.random() < 0.85 else ['float', 3] for _ in ks]
    else:
        vals = [gen_obj(rng, depth - 1) for _ in ks]
    return ['map', name, [[k, v] for k, v in zip(ks, vals)]]


def shape(v):
    """(depth, set of classes, heterogeneous?)"""
    t = v[0]
    if t == 'cont':
        kids = v[2]
    elif t == 'map':
        kids = [x for kv in v[2] for x in kv]
    else:
        return 0, {t if t != 'obj' else v[1]}, False
    ds = [shape(k) for k in kids]
    classes = {v[1]}
    for d in ds:
        classes |= d[1]
    tops = {k[0] if k[0] not in ('cont', 'map', 'obj') else k[1] for k in kids}
    return 1 + max([d[0] for d in ds], default=0), classes, len(tops) > 1 or any(d[2] for d in ds)


def coq_icase(value, res):
    b = res['bearable']
    return '{| i_val := %s; i_real := %s; i_bearable := %s; i_expect_sat := %s |}' % (
        IR.coq_val(value), coq_opt(res.get('hint_ir'), lambda h: '(%s)' % IR.coq_hint(h)),
        'VTrue' if b is True else 'VFalse' if b is False else 'VExc',
        'true' if res.get('expect_sat') else 'false')


def finding_shape(value, res):
    """classification used to match known findings"""
    classes = shape(value)[1]
    b = res.get('bearable')
    if isinstance(b, str) and ("'Iota' object has no attribute" in b or 'BeartypeDecorHintRecursionException' in b):
        return {'clause': 'inferred_hint_rejects', 'kind': 'oversize_hint'}
    if 'Counter' in classes and res.get('bearable') is False:
        return {'clause': 'inferred_hint_rejects', 'kind': 'counter_non_int'}
    return {'clause': 'inferred_hint_rejects', 'kind': 'other', 'root': value[1] if len(value) > 1 and value[0] in ('cont', 'map') else value[0]}


def counters_int(v):
    if v[0] == 'cont':
        return all(counters_int(x) for x in v[2])
    if v[0] == 'map':
        ok = all(counters_int(k) and counters_int(x) for k, x in v[2])
        if v[1] == 'Counter':
            ok = ok and all(x[0] in ('int', 'bool') for _, x in v[2])
        return ok
    return True


def recursion_probe():
    """self-referential containers: terminate with a recursion warning; is the result bearable?"""
    code = r'''
import json, warnings
from beartype.door import infer_hint, is_bearable
out = []
def probe(name, obj):
    with warnings.catch_warnings(record=True) as wl:
        warnings.simplefilter('always')
        try:
            h = infer_hint(obj)
            term = True
        except RecursionError:
            out.append({'name': name, 'terminated': False}); return
    try:
        b = bool(is_bearable(obj, h))
    except Exception as e:
        b = 'exc:' + type(e).__name__
    out.append({'name': name, 'terminated': True, 'warned': any('Recursion' in w.category.__name__ for w in wl), 'bearable': b})
l = []; l.append(l); probe('list_in_itself', l)
d = {}; d['k'] = d; probe('dict_in_itself', d)
a = [1]; b = [a]; a.append(b); probe('mutual_lists', a)
t = ([],); t[0].append(t); probe('tuple_via_list', t)
print(json.dumps(out))
'''
    import subprocess
    p = subprocess.run([PY, '-c', code], capture_output=True, text=True, env=impl_env(), timeout=120)
    if p.returncode != 0:
        return [{'name': 'probe_crashed', 'terminated': False, 'stderr': p.stderr[-500:]}]
    return json.loads(p.stdout.strip().splitlines()[-1])


def run(ctx):
    ctx.rule = ('objects drawn from: scalars, class objects, plain instances, list/tuple/deque/UserSeq, set/frozenset/dict_keys, '
                'dict_values/dict_items/UserColl/UserIter/UserCont/generator/list_iterator/UserSizedIter, dict/defaultdict/'
                'OrderedDict/ChainMap/Counter/UserMap; nesting depth <= 4, 0-12 items of mixed kinds (85% of Counter values '
                'ints); non-trivial = depth >= 2 or heterogeneous items; distinct = distinct object; plus four self-referential '
                'containers on the implementation alone')
    ctx.assumptions += ['callables, third-party (numpy etc.) objects and objects that are themselves hints are outside the model',
                        'self-referential containers cannot be expressed by the tree-shaped object universe: they are decided '
                        'on the implementation only', 'list subclasses subscripted as hints (UserList[int]) are outside the model']
    ctx.safe_regenerate(regenerate)
    proof_err = None
    try:
        ctx.prove(PROP, extra_targets=['theories/C20/Corr.vo'])
    except CoqFailure as e:
        proof_err = e
        from harness.common import coq_make
        try:
            coq_make(['theories/C20/Corr.vo'])
        except CoqFailure as e2:
            ctx.broken('corr/c20 model does not build', e2.log)
            return
    failures = 0
    n = {'quick': 1500, 'thorough': 40000}[ctx.tier]
    values, seen = [], set()
    while len(values) < n:
        v = gen_obj(ctx.rng, ctx.rng.choice([1, 2, 2, 3, 3, 4]))
        k = json.dumps(v)
        if k in seen or not IR.valid_value(v):
            if len(seen) > 20 * n:
                break
            seen.add(k)
            continue
        seen.add(k)
        values.append(v)
    # minimised past failures first
    cdir = os.path.join(VERIF, 'corpus', 'C20')
    if os.path.isdir(cdir):
        for f in sorted(os.listdir(cdir)):
            with open(os.path.join(cdir, f)) as fh:
                values.insert(0, json.load(fh)['value'])
    rows, index = [], []
    for lo in range(0, len(values), 500):
        part = values[lo:lo + 500]
        obs = run_impl('c20_impl.py', {'cases': [{'value': v} for v in part]})
        for v, res in zip(part, obs):
            d, classes, het = shape(v)
            ctx.case(v, d >= 2 or het, sample={'value': v, 'inferred': res.get('hint_repr'), 'bearable': res.get('bearable')})
            ctx.count('depth=%d' % d)
            ctx.count('bearable:' + str(res.get('bearable'))[:12])
            for c in classes:
                ctx.count('class:' + c)
            if 'error' in res:
                failures += 1
                ctx.report({'clause': 'infer_raised'}, {'value': v, 'observed': res}, 'infer_hint raised on a plain object')
                continue
            if res.get('bearable') is not True:
                # the property itself, on the implementation
                sh = finding_shape(v, res)
                if sh['kind'] == 'counter_non_int' and counters_int(v):
                    sh['kind'] = 'other'       # only Counters with non-integer counts are the known finding
                if ctx.report(sh, {'value': v, 'observed': res}, 'is_bearable(obj, infer_hint(obj)) is not True') == 'violation':
                    failures += 1
            if isinstance(res.get('bearable'), str) and finding_shape(v, res)['kind'] == 'oversize_hint':
                continue        # nothing to compare: the check of the inferred hint could not be generated
            if 'unreadable' in res:
                failures += 1
                ctx.report({'clause': 'unreadable_hint'}, {'value': v, 'observed': res},
                           'the inferred hint is outside the modelled grammar')
                continue
            vn = res.get('value_norm', v)
            rows.append(coq_icase(vn, res))
            index.append((v, res))
    shard, paths = 250, []
    for lo in range(0, len(rows), shard):
        text = HEADER + 'Definition cases : list icase := %s.\nEval vm_compute in (ifailing cases).\n' % coq_list(
            ['\n ' + r for r in rows[lo:lo + shard]])
        path = os.path.join(ctx.workdir, f'c20_{lo}.v')
        with open(path, 'w') as f:
            f.write(text)
        paths.append(path)
    reported = 0
    for si, out in enumerate(coqc_many(paths, jobs=12)):
        for j in parse_nat_list(out):
            if reported >= 6:
                break
            reported += 1
            failures += 1
            v, res = index[si * shard + j]
            ctx.report({'clause': 'correspondence', 'root': v[1] if v[0] in ('cont', 'map') else v[0]},
                       {'value': v, 'observed': res, 'expected': 'C20/Infer.v infer_hint / check / sat'},
                       'the model\'s inferred hint, verdict or meaning differs from beartype')
    for pr in recursion_probe():
        ctx.evaluations += 1
        ctx.count('recursive:' + pr['name'])
        if not pr.get('terminated') or not pr.get('warned'):
            failures += 1
            ctx.report({'clause': 'recursion_not_guarded', 'name': pr['name']}, pr,
                       'a self-referential container did not terminate with a recursion warning')
        elif pr.get('bearable') is not True:
            if ctx.report({'clause': 'inferred_hint_rejects', 'kind': 'self_referential', 'name': pr['name']}, pr,
                          'the hint inferred from a self-referential container rejects it') == 'violation':
                failures += 1
    # containers of instances of *distinct classes that share a qualified name* (factory-made classes, repeated namedtuple /
    # make_dataclass / type() calls): the inferred hint must keep both
    probe = same_name_probe()
    ctx.extra['same_name_classes_probe'] = probe
    ctx.evaluations += len(probe)
    for name, verdict in probe.items():
        if verdict != 'accepted on every call':
            failures += 1
            ctx.report({'clause': 'inferred_hint_rejects', 'kind': 'same_named_classes'}, {'case': name, 'observed': verdict},
                       'is_bearable(obj, infer_hint(obj)) fails for a container over distinct classes of one name: ' + name)
            break
    if proof_err is not None and not failures:
        ctx.broken(f'{PROP} ({proof_err.what})', proof_err.log)


def same_name_probe():
    import subprocess
    from harness.common import PY, impl_env
    code = r'''
import json, warnings, collections, dataclasses
warnings.simplefilter('ignore')
from beartype import BeartypeConf, BeartypeStrategy
from beartype.door import infer_hint, is_bearable
def make_record_class():
    class Record:
        def __init__(self, v): self.v = v
    return Record
RA, RB = make_record_class(), make_record_class()
P1, P2 = collections.namedtuple('Point', 'x'), collections.namedtuple('Point', 'x y')
D1, D2 = dataclasses.make_dataclass('Row', ['a']), dataclasses.make_dataclass('Row', ['b'])
T1, T2 = type('Plugin', (), {}), type('Plugin', (), {})
OBJS = {
 'list of two factory-made classes': [RA(1), RB(2)],
 'long tuple of two factory-made classes': (RA(1), RB(2)) * 6,
 'list of two namedtuple versions': [P1(1), P2(1, 2)],
 'list of two make_dataclass classes': [D1(1), D2(2)],
 'list of the two classes themselves': [T1, T2],
 'nested in a dict in a list': [{'plugins': [T1(), T2()]}],
 'set of instances': {T1(), T2()},
 'control: differently named classes': [RA(1), P1(1)],
}
out = {}
on = BeartypeConf(strategy=BeartypeStrategy.On)
for name, obj in OBJS.items():
    try:
        h = infer_hint(obj)
        bad = sum(1 for _ in range(40) if not is_bearable(obj, h)) + sum(1 for _ in range(3) if not is_bearable(obj, h, conf=on))
        out[name] = 'accepted on every call' if bad == 0 else 'rejected on %d of 43 calls (hint %r)' % (bad, h)
    except Exception as e:
        out[name] = 'raised ' + type(e).__name__ + ': ' + str(e)[:120]
print(json.dumps(out))
'''
    p = subprocess.run([PY, '-c', code], capture_output=True, text=True, env=impl_env(), timeout=300)
    try:
        return json.loads(p.stdout.strip().splitlines()[-1])
    except Exception:  # noqa
        return {'probe_failed': p.stderr[-600:] or 'no output'}


def replay(ctx, path):
    with open(path) as f:
        body = json.load(f)
    ctx.safe_regenerate(regenerate)
    r = body['record']
    if 'value' in r:
        print(json.dumps(run_impl('c20_impl.py', {'cases': [{'value': r['value']}]})[0]))
