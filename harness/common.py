"""Shared machinery of the /verif checks (see DESIGN.md section 3).

A property check is a module harness/props/cNN.py exposing run(ctx).  The
driver (/verif/check) builds a Ctx, calls run, then ctx.finish() prints the
verdict lines, writes evidence/<id>.json and returns the exit status.
"""
import fcntl
import hashlib
import json
import os
import random
import re
import shutil
import subprocess
import sys
import time

VERIF = os.path.dirname(os.path.dirname(os.path.abspath(__file__)))
REPO = os.environ.get('VERIF_REPO', '/repo')
COQ = os.path.join(VERIF, 'coq')
PY = '/venv/bin/python'
GUARD = 'BEARTYPE_VERIF'

STDLIB_AXIOMS_OK = (
    # axioms the Coq standard library itself declares; a theorem depending on
    # one of them lists it in its trusted base
    'functional_extensionality_dep', 'classic', 'proof_irrelevance',
    'JMeq_eq', 'Eqdep.Eq_rect_eq.eq_rect_eq', 'eq_rect_eq',
    'propositional_extensionality', 'constructive_indefinite_description',
)


def impl_env(extra=None):
    env = dict(os.environ)
    env['PYTHONPATH'] = REPO
    env['PYTHONHASHSEED'] = '0'
    env[GUARD] = '1'
    env.pop('PYTHONDONTWRITEBYTECODE', None)
    env['PYTHONDONTWRITEBYTECODE'] = '1'
    if extra:
        env.update(extra)
    return env


def run_impl(script, payload, timeout=600, extra_env=None, args=()):
    """Run harness/impl/<script> under the repository's interpreter with the
    JSON payload on stdin; return the decoded JSON it prints on its last line."""
    path = os.path.join(VERIF, 'harness', 'impl', script)
    p = subprocess.run([PY, path, *args], input=json.dumps(payload), text=True,
                       capture_output=True, timeout=timeout, env=impl_env(extra_env),
                       cwd=os.path.join(VERIF, 'harness', 'impl'))
    if p.returncode != 0:
        raise ImplCrash(f'{script} exited {p.returncode}\nSTDERR:\n{p.stderr[-4000:]}')
    lines = [l for l in p.stdout.splitlines() if l.startswith('{') or l.startswith('[')]
    if not lines:
        raise ImplCrash(f'{script} printed no JSON\nSTDOUT:\n{p.stdout[-2000:]}\nSTDERR:\n{p.stderr[-2000:]}')
    return json.loads(lines[-1])


class ImplCrash(Exception):
    pass


class CoqFailure(Exception):
    def __init__(self, what, log):
        super().__init__(what)
        self.what = what
        self.log = log


# ----------------------------------------------------------------- Coq side

def write_if_changed(path, text):
    os.makedirs(os.path.dirname(path), exist_ok=True)
    try:
        with open(path) as f:
            if f.read() == text:
                return False
    except FileNotFoundError:
        pass
    with open(path, 'w') as f:
        f.write(text)
    return True


def coq_files():
    out = []
    for root, _, files in os.walk(os.path.join(COQ, 'theories')):
        for f in sorted(files):
            if f.endswith('.v'):
                out.append(os.path.relpath(os.path.join(root, f), COQ))
    return sorted(out)


class _Lock:
    def __enter__(self):
        os.makedirs(os.path.join(VERIF, 'build'), exist_ok=True)
        self.f = open(os.path.join(VERIF, 'build', '.coq.lock'), 'w')
        fcntl.flock(self.f, fcntl.LOCK_EX)
        return self

    def __exit__(self, *a):
        fcntl.flock(self.f, fcntl.LOCK_UN)
        self.f.close()


def coq_make(targets, jobs=8, timeout=900):
    """(Re)generate the Makefile from the files present and build the given
    .vo targets with their dependencies.  Full .vo build, never -vos."""
    with _Lock():
        files = coq_files()
        proj = '-R theories BT\n' + '\n'.join(files) + '\n'
        changed = write_if_changed(os.path.join(COQ, '_CoqProject'), proj)
        if changed or not os.path.exists(os.path.join(COQ, 'Makefile')):
            p = subprocess.run(['coq_makefile', '-f', '_CoqProject', '-o', 'Makefile'],
                               cwd=COQ, capture_output=True, text=True)
            if p.returncode != 0:
                raise CoqFailure('coq_makefile', p.stdout + p.stderr)
        cmd = ['timeout', '-k', '10', str(timeout), 'make', f'-j{jobs}', *targets]
        p = subprocess.run(cmd, cwd=COQ, capture_output=True, text=True, start_new_session=True)
        if p.returncode in (124, 137):
            # make was stopped: stop the compilers it left behind as well
            subprocess.run(['pkill', '-f', 'coqc .*-R theories BT theories/'], capture_output=True)
        log = p.stdout + p.stderr
        if p.returncode != 0:
            raise CoqFailure('make ' + ' '.join(targets), log)
        return log


def coqc_file(path, timeout=600):
    """Compile one generated .v file (cases, queries) outside theories/."""
    p = subprocess.run(['timeout', str(timeout), 'coqc', '-R', os.path.join(COQ, 'theories'), 'BT',
                        '-Q', os.path.dirname(path), 'Run', path],
                       capture_output=True, text=True, cwd=os.path.dirname(path))
    if p.returncode != 0:
        raise CoqFailure('coqc ' + os.path.basename(path), p.stdout + p.stderr)
    return p.stdout


def parse_nat_list(out):
    """Parse the `= [1; 2] : list nat` answer of one Eval vm_compute."""
    m = re.search(r'=\s*\[(.*?)\]\s*:\s*list', out, re.S)
    if not m:
        raise CoqFailure('unparsable coq answer', out[-2000:])
    body = m.group(1).strip()
    if not body:
        return []
    return [int(x.strip().replace('%nat', '')) for x in body.split(';')]


def coq_str(s):
    return '"' + s.replace('"', '""') + '"'


def coq_list(items):
    return '[' + '; '.join(items) + ']'


def coq_opt(x, f=str):
    return 'None' if x is None else f'(Some {f(x)})'


GATE_RE = re.compile(r'\b(Admitted|admit|Axiom|Parameter|Conjecture|Hypothesis|Variable|'
                     r'Unset Guard|bypass_check|type-in-type|impredicative-set|Admit Obligations|'
                     r'Unset Positivity|Unset Universe)\b')


def grep_gate():
    """No axioms, admits or disabled checks anywhere in the development.
    `Variable`/`Hypothesis`/`Context` are only allowed inside a Section."""
    bad = []
    for rel in coq_files():
        depth = 0
        with open(os.path.join(COQ, rel)) as f:
            text = f.read()
        # drop comments (non-nested is enough for our files; nested handled crudely)
        text = re.sub(r'\(\*.*?\*\)', lambda m: '\n' * m.group(0).count('\n'), text, flags=re.S)
        for i, line in enumerate(text.split('\n'), 1):
            s = line.strip()
            if re.match(r'Section\b', s):
                depth += 1
            elif re.match(r'End\b', s) and depth > 0:
                depth -= 1
            for m in GATE_RE.finditer(line):
                w = m.group(1)
                if w in ('Variable', 'Hypothesis') and depth > 0:
                    continue
                bad.append(f'{rel}:{i}: {s}')
    return bad


def print_assumptions(prop_file_vo_log, names):
    """Extract, from the build output of a Props file, what each
    `Print Assumptions` said.  Returns {theorem: [axioms]} ([] = closed)."""
    raise NotImplementedError


def _sweep_stale_workdirs(max_age_s=6 * 3600):
    """remove work directories left behind by killed runs"""
    root = os.path.join(VERIF, 'build')
    if not os.path.isdir(root):
        return
    now = time.time()
    for d in os.listdir(root):
        p = os.path.join(root, d)
        try:
            if d.startswith('run-') and now - os.path.getmtime(p) > max_age_s:
                shutil.rmtree(p, ignore_errors=True)
        except OSError:
            pass


def coqc_many(paths, jobs=8, timeout=600):
    """compile generated files in parallel; returns their outputs in order"""
    from concurrent.futures import ThreadPoolExecutor
    with ThreadPoolExecutor(max_workers=jobs) as ex:
        return list(ex.map(lambda p: coqc_file(p, timeout), paths))


def assumptions_of(module, theorems, workdir):
    """Ask Coq for the assumptions of each theorem; returns dict name -> list."""
    os.makedirs(workdir, exist_ok=True)
    path = os.path.join(workdir, 'assumptions_%s.v' % module.replace('.', '_'))
    lines = [f'From BT Require Import {module}.']
    for t in theorems:
        lines.append(f'Goal True. idtac "@@ {t}". exact I. Qed.')
        lines.append(f'Print Assumptions {t}.')
    with open(path, 'w') as f:
        f.write('\n'.join(lines) + '\n')
    out = coqc_file(path)
    res = {}
    cur = None
    for line in out.splitlines():
        if line.startswith('@@ '):
            cur = line[3:].strip()
            res[cur] = []
        elif cur is not None:
            s = line.strip()
            if not s or s.startswith('Closed under the global context') or s == 'Axioms:':
                continue
            m = re.match(r'([A-Za-z_][\w\.\']*)\s*:', s)
            if m:
                res[cur].append(m.group(1))
    return res


def theorems_in(rel):
    with open(os.path.join(COQ, rel)) as f:
        text = f.read()
    text = re.sub(r'\(\*.*?\*\)', '', text, flags=re.S)
    return re.findall(r'^\s*(?:Theorem|Lemma|Example|Corollary|Fact)\s+([\w\']+)', text, re.M)


# ----------------------------------------------------------------- findings

def load_known():
    with open(os.path.join(VERIF, 'known_findings.json')) as f:
        return json.load(f)


def finding_matches(entry, shape):
    if entry.get('status') != 'known':
        return False
    for k, v in entry['match'].items():
        if k not in shape:
            return False
        sv = shape[k]
        if isinstance(v, str) and v.startswith('re:'):
            if not re.search(v[3:], str(sv), re.S):
                return False
        elif sv != v:
            return False
    return True


# ----------------------------------------------------------------- context

class Ctx:
    def __init__(self, pid, tier, seed, level='proof'):
        self.pid = pid
        self.tier = tier
        self.seed = seed
        self.level = level
        self.rng = random.Random(seed * 1000003 + int(pid[1:]))
        self.t0 = time.time()
        self.workdir = os.path.join(VERIF, 'build', f'run-{pid}-{os.getpid()}')
        _sweep_stale_workdirs()
        os.makedirs(self.workdir, exist_ok=True)
        self.evaluations = 0
        self.nontrivial = set()
        self.samples = []
        self.dist = {}
        self.violations = []          # (replay path, tail)
        self.known_lines = []
        self.known_seen = set()
        self.obligations = []         # theorem names
        self.discharged = []
        self.trusted = []
        self.assumptions = []
        self.notes = {}
        self.rule = ''
        self.checker_cmd = ''
        self.extra = {}
        self.known = [e for e in load_known() if e['property'] == pid]

    # -- counting
    def count(self, key, n=1):
        self.dist[key] = self.dist.get(key, 0) + n

    def case(self, canon, nontrivial=True, sample=None):
        self.evaluations += 1
        if nontrivial:
            h = hashlib.sha1(json.dumps(canon, sort_keys=True, default=str).encode()).hexdigest()
            self.nontrivial.add(h)
        if sample is not None and len(self.samples) < 5:
            self.samples.append(sample)

    # -- verdicts
    def report(self, shape, record, what):
        """A failing input was found.  shape: dict used to match known findings;
        record: JSON-able replay."""
        for e in self.known:
            if finding_matches(e, shape):
                if e['id'] not in self.known_seen:
                    self.known_seen.add(e['id'])
                    self.known_lines.append(f"KNOWN-FINDING: property={self.pid} {e['id']} {e['what']}")
                return 'known'
        self._write_violation(shape, record, what, '')
        return 'violation'

    def broken(self, obligation, detail, shape=None):
        """A proof obligation or a correspondence no longer checks and the search
        found no failing input."""
        rec = {'broken': obligation, 'detail': detail[-6000:]}
        self._write_violation(shape or {'broken': obligation}, rec, obligation, ' no-failing-input-found')

    def _write_violation(self, shape, record, what, tail):
        d = os.path.join(VERIF, 'replays', self.pid)
        os.makedirs(d, exist_ok=True)
        body = {'property': self.pid, 'tier': self.tier, 'seed': self.seed, 'what': what,
                'shape': shape, 'record': record,
                'rerun': f'cd /verif && ./check {self.pid} --replay <this file>'}
        h = hashlib.sha1(json.dumps([shape, record], sort_keys=True, default=str).encode()).hexdigest()[:12]
        path = os.path.join(d, f'{h}.json')
        with open(path, 'w') as f:
            json.dump(body, f, indent=1, default=str)
        if len(self.violations) < 20:
            self.violations.append((path, tail))

    # -- proofs
    def safe_regenerate(self, fn):
        """run a property's translators; when one fails (the source no longer has the shape the model is generated from) remember
        the failure, keep the last generated model and let the run go on searching for a failing input with it: prove() will
        re-raise the failure as the broken obligation"""
        try:
            return fn(self)
        except CoqFailure as e:
            self.regen_err = e
            return None

    def prove(self, prop_rel, extra_targets=()):
        """Build Props/<pid>.vo (and its whole dependency closure) and record
        obligations / assumptions.  Raises CoqFailure when a proof breaks."""
        if getattr(self, 'regen_err', None) is not None:
            raise self.regen_err
        bad = grep_gate()
        if bad:
            raise CoqFailure('grep gate', '\n'.join(bad))
        vo = prop_rel[:-2] + '.vo'
        log = coq_make([vo, *extra_targets])
        self.checker_cmd = f'cd /verif/coq && make {vo}   (coqc 8.16.1, full .vo build; grep gate; Print Assumptions per theorem)'
        # obligations: every Theorem/Lemma/Example in the closure of the property file
        deps = self._closure(prop_rel)
        names = []
        for rel in deps:
            ths = theorems_in(rel)
            self.obligations += [f'{rel}:{t}' for t in ths]
            if os.path.exists(os.path.join(COQ, rel[:-2] + '.vo')) and \
               os.path.getmtime(os.path.join(COQ, rel[:-2] + '.vo')) >= os.path.getmtime(os.path.join(COQ, rel)):
                self.discharged += [f'{rel}:{t}' for t in ths]
        mod = prop_rel[len('theories/'):-2].replace('/', '.')
        top = theorems_in(prop_rel)
        ass = assumptions_of(mod, top, self.workdir)
        allowed = True
        for t, axs in ass.items():
            for a in axs:
                base = a.split('.')[-1]
                if base not in STDLIB_AXIOMS_OK and a not in STDLIB_AXIOMS_OK:
                    allowed = False
                    raise CoqFailure('non-whitelisted axiom', f'{t} depends on {a}')
            self.trusted.append(f'{t}: ' + ('Closed under the global context' if not axs else 'axioms ' + ', '.join(axs)))
        return log

    def _closure(self, rel):
        seen, todo = [], [rel]
        while todo:
            r = todo.pop()
            if r in seen or not os.path.exists(os.path.join(COQ, r)):
                continue
            seen.append(r)
            with open(os.path.join(COQ, r)) as f:
                text = f.read()
            for m in re.finditer(r'^\s*From BT Require (?:Import|Export) (.*?)\.\s*$', text, re.M):
                for mod in m.group(1).split():
                    todo.append('theories/' + mod.replace('.', '/') + '.v')
        return sorted(seen)

    # -- finishing
    def finish(self, write_evidence=True):
        wall = time.time() - self.t0
        for l in self.known_lines:
            print(l)
        # a listed known finding that was not reproduced is reported in evidence only
        cov = {
            'obligations': len(self.obligations),
            'discharged': len(self.discharged),
            'checker_cmd': self.checker_cmd or 'n/a',
            'trusted_base': self.trusted + [
                'Coq 8.16.1 kernel (coqc, vm_compute; no native_compute)',
                'harness/props/%s.py and harness/impl/* (correspondence harness, generators, canonicalisation)' % self.pid.lower(),
            ] + self.extra.get('trusted_base', []),
            'evaluations': self.evaluations,
            'distinct_nontrivial': len(self.nontrivial),
            'rule': self.rule,
            'samples': self.samples or ['(none)'],
            'distribution': self.dist,
            'known_findings_reproduced': sorted(self.known_seen),
            'known_findings_listed': [e['id'] for e in self.known if e['status'] == 'known'],
        }
        cov.update({k: v for k, v in self.extra.items() if k != 'trusted_base'})
        ev = {
            'property_id': self.pid, 'tier': self.tier, 'seed': self.seed, 'level': self.level,
            'coverage': cov, 'assumptions': self.assumptions, 'wall_s': round(wall, 2),
            'violations': len(self.violations),
        }
        if write_evidence:           # a replay of one recorded input is not a check: it leaves the evidence file alone
            os.makedirs(os.path.join(VERIF, 'evidence'), exist_ok=True)
            with open(os.path.join(VERIF, 'evidence', f'{self.pid}.json'), 'w') as f:
                json.dump(ev, f, indent=1, default=str)
        shutil.rmtree(self.workdir, ignore_errors=True)
        for path, tail in self.violations:
            print(f'VIOLATION property={self.pid} replay={path}{tail}')
        print(f'[{self.pid}] tier={self.tier} seed={self.seed} evaluations={self.evaluations} '
              f'distinct_nontrivial={len(self.nontrivial)} obligations={len(self.obligations)} '
              f'discharged={len(self.discharged)} violations={len(self.violations)} '
              f'known={sorted(self.known_seen)} wall={wall:.1f}s')
        return 1 if self.violations else 0


def shrink_list(items, fails, max_steps=400):
    """ddmin-style shrink of a list while `fails(list)` stays true."""
    cur = list(items)
    n = 2
    steps = 0
    while len(cur) >= 2 and steps < max_steps:
        chunk = max(1, len(cur) // n)
        reduced = False
        for i in range(0, len(cur), chunk):
            cand = cur[:i] + cur[i + chunk:]
            steps += 1
            if cand and fails(cand):
                cur = cand
                n = max(n - 1, 2)
                reduced = True
                break
        if not reduced:
            if chunk == 1:
                break
            n = min(len(cur), n * 2)
    return cur
